"""Probe: branch-labelled CFG + path-condition query (R5.1) on the real loader. Static only."""
import ast, sys, itertools
class CFG:
    def __init__(s): s.nodes={}; s.succ={}; s.n=0
    def new(s,kind,node=None):
        s.n+=1; s.nodes[s.n]=(kind,node); s.succ[s.n]=[]; return s.n
    def edge(s,a,b,label=None):
        if a is not None and b is not None: s.succ[a].append((b,label))
def build(fn):
    g=CFG(); entry=g.new("entry"); exit_=g.new("exit"); rais=g.new("raise-exit")
    def cond(test,pred_edges,loopctx):
        # returns (true_edges, false_edges); splits and/or/not for path sensitivity
        if isinstance(test,ast.BoolOp) and isinstance(test.op,ast.And):
            t=pred_edges; fs=[]
            for v in test.values:
                t,f=cond(v,t,loopctx); fs+=f
            return t,fs
        if isinstance(test,ast.BoolOp) and isinstance(test.op,ast.Or):
            f=pred_edges; ts=[]
            for v in test.values:
                t,f=cond(v,f,loopctx); ts+=t
            return ts,f
        if isinstance(test,ast.UnaryOp) and isinstance(test.op,ast.Not):
            t,f=cond(test.operand,pred_edges,loopctx); return f,t
        n=g.new("test",test)
        for a,l in pred_edges: g.edge(a,n,l)
        return [(n,"T")],[(n,"F")]
    def seq(stmts,pred_edges,loopctx):
        # pred_edges: list of (node,label) dangling edges
        for s in stmts:
            if isinstance(s,ast.If):
                t,f=cond(s.test,pred_edges,loopctx)
                a=seq(s.body,t,loopctx); b=seq(s.orelse,f,loopctx) if s.orelse else f
                pred_edges=a+b
            elif isinstance(s,(ast.For,ast.While)):
                head=g.new("loop",s)
                for a,l in pred_edges: g.edge(a,head,l)
                ctx={"head":head,"breaks":[]}
                if isinstance(s,ast.For): t,f=[(head,"iter")],[(head,"exhausted")]
                else: t,f=cond(s.test,[(head,None)],ctx)
                body_out=seq(s.body,t,ctx)
                for a,l in body_out: g.edge(a,head,l or "back")
                pred_edges=f+ctx["breaks"]
                if s.orelse: pred_edges=seq(s.orelse,f,loopctx)+ctx["breaks"]
            elif isinstance(s,ast.Return):
                n=g.new("stmt",s)
                for a,l in pred_edges: g.edge(a,n,l)
                g.edge(n,exit_,"return"); pred_edges=[]
            elif isinstance(s,ast.Raise):
                n=g.new("stmt",s)
                for a,l in pred_edges: g.edge(a,n,l)
                g.edge(n,rais,"raise"); pred_edges=[]
            elif isinstance(s,ast.Break):
                loopctx["breaks"]+= [(a,(l or "")+"|break") for a,l in pred_edges]; pred_edges=[]
            elif isinstance(s,ast.Continue):
                for a,l in pred_edges: g.edge(a,loopctx["head"],(l or "")+"|continue")
                pred_edges=[]
            elif isinstance(s,ast.With):
                n=g.new("with",s)
                for a,l in pred_edges: g.edge(a,n,l)
                pred_edges=seq(s.body,[(n,None)],loopctx)
            else:
                n=g.new("stmt",s)
                for a,l in pred_edges: g.edge(a,n,l)
                pred_edges=[(n,None)]
        return pred_edges
    out=seq(fn.body,[(entry,None)],None)
    for a,l in out: g.edge(a,exit_,l)
    return g,entry,exit_,rais
src=open("/repo/ascmhl/history.py").read(); tree=ast.parse(src)
cls=[n for n in tree.body if isinstance(n,ast.ClassDef)][0]
fn=[n for n in cls.body if isinstance(n,ast.FunctionDef) and n.name=="load_from_path"][0]
g,entry,exit_,rais=build(fn)
print("nodes",len(g.nodes),"edges",sum(len(v) for v in g.succ.values()))
# find the loop over <chain>.generations
loops=[i for i,(k,n) in g.nodes.items() if k=="loop" and isinstance(n,ast.For) and ast.unparse(n.iter).endswith(".generations")]
print("verification loops:",[ (i,ast.unparse(g.nodes[i][1].iter)) for i in loops])
L=loops[0]
# enumerate simple paths of one iteration: from L via 'iter' back to L (or out), collect conditions
def paths(start_edges,stop):
    out=[]
    def dfs(n,conds,seen):
        if n==stop or g.nodes[n][0] in("exit","raise-exit"): out.append((n,conds)); return
        if n in seen: return
        for m,l in g.succ[n]:
            c=conds
            if g.nodes[n][0]=="test": c=conds+[(ast.unparse(g.nodes[n][1]),l)]
            dfs(m,c,seen|{n})
    for m,l in start_edges: dfs(m,[],set())
    return out
it=[(m,l) for m,l in g.succ[L] if l=="iter"]
for end,conds in paths(it,L):
    print(" ->",g.nodes[end][0] if end!=L else "BACK-EDGE", conds)
