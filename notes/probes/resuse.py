import ast, glob, collections
for f in sorted(glob.glob("/repo/ascmhl/**/*.py",recursive=True)):
    t=ast.parse(open(f).read())
    for fn in [n for n in ast.walk(t) if isinstance(n,ast.FunctionDef)]:
        use=collections.defaultdict(lambda: {"used":[], "dropped":[]})
        for n in ast.walk(fn):
            if isinstance(n,ast.Expr) and isinstance(n.value,ast.Call):
                c=n.value; name=ast.unparse(c.func); use[name]["dropped"].append(c.lineno)
        dropped_ids={id(n.value) for n in ast.walk(fn) if isinstance(n,ast.Expr) and isinstance(n.value,ast.Call)}
        for n in ast.walk(fn):
            if isinstance(n,ast.Call) and id(n) not in dropped_ids:
                use[ast.unparse(n.func)]["used"].append(n.lineno)
        for name,u in use.items():
            if u["used"] and u["dropped"] and not name.startswith(("logger.","click.","file.","hash_element.","info_element.","hasher.update","self.")) and not name.endswith((".append",".add",".update",".discard",".extend",".sort",".clear",".pop",".close",".write",".flush")):
                print(f.split("/repo/")[1],fn.name,name,u)
