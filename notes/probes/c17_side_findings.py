import os, shutil, tempfile, sys
from click.testing import CliRunner
import ascmhl.commands as C
def run(cmd, args):
    r = CliRunner().invoke(cmd, args)
    return r.exit_code, r.output[-600:], r.exception
def w(p, s):
    os.makedirs(os.path.dirname(p), exist_ok=True); open(p,'w').write(s)
def case1():
    d = tempfile.mkdtemp(); root=os.path.join(d,'root')
    w(root+'/a.txt','A'); w(root+'/keep.txt','K')
    print('c1 create', run(C.create,[root,'-h','xxh64'])[0])
    os.rename(root+'/a.txt', root+'/b.txt'); w(root+'/newdir/n.txt','N')
    rc,out,exc = run(C.create,[root,'-dr','-h','md5'])
    print('c1 create -dr -h md5', rc, repr(exc)); shutil.rmtree(d)
def case2():
    d = tempfile.mkdtemp(); root=os.path.join(d,'root')
    w(root+'/c.txt','C'); w(root+'/N/b.txt','B')
    print('c2 create N', run(C.create,[root+'/N','-h','xxh64'])[0])
    print('c2 create root', run(C.create,[root,'-h','xxh64'])[0])
    os.rename(root+'/c.txt', root+'/b.txt')
    print('c2 create -dr', run(C.create,[root,'-dr','-h','xxh64'])[0])
    rc,out,exc = run(C.verify,[root]); print('c2 verify', rc, out[-300:], repr(exc))
    rc,out,exc = run(C.diff,[root]); print('c2 diff', rc, out[-300:], repr(exc))
    shutil.rmtree(d)
def case3():
    d = tempfile.mkdtemp(); root=os.path.join(d,'root')
    w(root+'/a.txt','A'); w(root+'/x.txt','X')
    print('c3 create', run(C.create,[root,'-h','xxh64'])[0])
    os.rename(root+'/a.txt', root+'/b.txt')
    print('c3 create -dr', run(C.create,[root,'-dr','-h','xxh64'])[0])
    os.rename(root+'/x.txt', root+'/a.txt')
    rc,out,exc = run(C.create,[root,'-dr','-h','xxh64']); print('c3 create -dr 2', rc, out[-300:], repr(exc))
    shutil.rmtree(d)
def case4():
    d = tempfile.mkdtemp(); root=os.path.join(d,'root')
    w(root+'/a.txt','A'); w(root+'/sub/b.txt','B')
    print('c4 create', run(C.create,[root,'-h','xxh64'])[0])
    os.remove(root+'/a.txt'); os.mkdir(root+'/a.txt')
    rc,out,exc = run(C.verify,[root]); print('c4 verify', rc, out[-300:], repr(exc))
    rc,out,exc = run(C.diff,[root]); print('c4 diff', rc, out[-200:], repr(exc))
    rc,out,exc = run(C.create,[root,'-h','xxh64']); print('c4 create', rc, out[-300:], repr(exc))
    shutil.rmtree(d)
for c in (case1,case2,case3,case4):
    try: c()
    except Exception as e: print(c.__name__,'EXC',repr(e))
