import os, sys, tempfile, shutil
sys.path.insert(0, os.environ.get("MHL_SRC", "/repo"))
from click.testing import CliRunner
from ascmhl.cli.ascmhl import mhltool_cli
d = tempfile.mkdtemp()
try:
    root = os.path.join(d, "root"); os.makedirs(os.path.join(root, "sub"))
    open(os.path.join(root, "a.txt"), "w").write("a")
    open(os.path.join(root, "sub", "b.txt"), "w").write("b")
    r = CliRunner()
    assert r.invoke(mhltool_cli, ["create", os.path.join(root, "sub"), "-h", "md5"]).exit_code == 0
    assert r.invoke(mhltool_cli, ["create", root, "-h", "md5"]).exit_code == 0
    res = r.invoke(mhltool_cli, ["info", "-sf", os.path.join(root, "sub", "b.txt"), root])
    print(res.exit_code); print(res.output)
    n = res.output.count("Generation")
    res2 = r.invoke(mhltool_cli, ["info", "-sf", os.path.join(root, "sub", "b.txt")])
    print(res2.output)
    print("lines with explicit root:", n, "lines without root:", res2.output.count("Generation"))
    sys.exit(0 if n == 2 else 1)
finally:
    shutil.rmtree(d)
