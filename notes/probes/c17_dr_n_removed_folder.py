import os, shutil, tempfile
from click.testing import CliRunner
import ascmhl.commands as C
def run(cmd, args):
    r = CliRunner().invoke(cmd, args); return r.exit_code, r.output[-200:].replace('\n',' | '), repr(r.exception)[:80]
def w(p, s):
    os.makedirs(os.path.dirname(p), exist_ok=True); open(p,'w').write(s)
rc=0
for opts in (['-n'], []):
    d = tempfile.mkdtemp(); root=os.path.join(d,'root')
    w(root+'/S/b.txt','B'); w(root+'/T/d.txt','D')
    print(opts, 'create', run(C.create,[root,'-h','xxh64']+opts)[0])
    os.rename(root+'/S/b.txt', root+'/T/b.txt'); os.rmdir(root+'/S')
    r = run(C.create,[root,'-h','xxh64','-dr']+opts); print(opts, 'create -dr', r)
    if r[0] not in (0,10): rc=1
    shutil.rmtree(d)
raise SystemExit(rc)
