import ast, glob
MUT={"mkdir","makedirs","remove","unlink","rmdir","removedirs","rename","renames","replace","truncate","utime","chmod","chown","link","symlink","rmtree","copy","copy2","copyfile","move","copytree","write_text","write_bytes","touch"}
ENUM={"listdir","scandir","walk","iterdir","glob","rglob"}
for f in sorted(glob.glob("/repo/ascmhl/**/*.py",recursive=True)):
    t=ast.parse(open(f).read()); rel=f.split("/repo/")[1]
    for fn in [n for n in ast.walk(t) if isinstance(n,ast.FunctionDef)]:
        for n in ast.walk(fn):
            if isinstance(n,ast.Call):
                name=ast.unparse(n.func); last=name.split(".")[-1]
                if name=="open":
                    mode=n.args[1].value if len(n.args)>1 and isinstance(n.args[1],ast.Constant) else ("r" if len(n.args)<2 else "?")
                    print(f"OPEN  {rel}:{n.lineno} {fn.name} mode={mode!r} path={ast.unparse(n.args[0])}")
                elif last in MUT and name.split(".")[0] in("os","shutil"): print(f"MUT   {rel}:{n.lineno} {fn.name} {name}({ast.unparse(n.args[0])})")
                elif last in ENUM and name.split(".")[0] in("os","glob"):
                    # is result sorted somewhere in function?
                    srt=[ast.unparse(x) for x in ast.walk(fn) if isinstance(x,ast.Call) and ast.unparse(x.func).endswith((".sort","sorted"))]
                    print(f"ENUM  {rel}:{n.lineno} {fn.name} {name}  sorts-in-fn={srt}")
        # click options -> params used?
        decos=[d for d in fn.decorator_list if isinstance(d,ast.Call) and ast.unparse(d.func) in("click.option","click.argument")]
        if decos:
            params=[a.arg for a in fn.args.args]
            used={x.id for x in ast.walk(fn) if isinstance(x,ast.Name) and isinstance(x.ctx,ast.Load)}
            dead=[p for p in params if p not in used]
            if dead: print(f"DEAD-OPTION {rel} {fn.name}: {dead}")
        elif fn.args.args and "ignore" in " ".join(a.arg for a in fn.args.args):
            used={x.id for x in ast.walk(fn) if isinstance(x,ast.Name) and isinstance(x.ctx,ast.Load)}
            dead=[a.arg for a in fn.args.args if "ignore" in a.arg and a.arg not in used]
            if dead: print(f"DEAD-IGNORE-PARAM {rel} {fn.name}: {dead}")
