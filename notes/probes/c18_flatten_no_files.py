import os, shutil, tempfile, glob
from click.testing import CliRunner
import ascmhl.commands as C
def run(cmd, args):
    r = CliRunner().invoke(cmd, args); return r.exit_code, r.output[-200:].replace('\n',' | '), repr(r.exception)[:80]
def w(p, s):
    os.makedirs(os.path.dirname(p), exist_ok=True); open(p,'w').write(s)
d = tempfile.mkdtemp(); root=os.path.join(d,'root'); os.makedirs(root+'/empty'); out=os.path.join(d,'out'); os.makedirs(out)
print('create', run(C.create,[root,'-h','xxh64'])[0])
r3 = run(C.flatten,[root,out]); pl = glob.glob(out+'/*/packinglist_*.mhl'); print('flatten', r3[0], len(pl))
ok = r3[0]==0 and len(pl)==1
if pl:
    print('xsd', run(C.xsd_schema_check,[pl[0]])[0]); print('verify -pl', run(C.verify,[root,'-pl',pl[0]]))
w(root+'/new.txt','N'); 
if pl: print('verify -pl after adding a file', run(C.verify,[root,'-pl',pl[0]])[0])
shutil.rmtree(d)
# nested history removed, NOT ignored: still exit 30
d = tempfile.mkdtemp(); root=os.path.join(d,'root')
w(root+'/a.txt','A'); w(root+'/1/n.txt','N')
run(C.create,[root+'/1','-h','xxh64']); run(C.create,[root,'-h','xxh64'])
shutil.rmtree(root+'/1')
r = run(C.create,[root,'-h','xxh64']); print('create after removing nested history (not ignored)', r[0])
r2 = run(C.create,[root,'-h','xxh64','-i','1']); print('create -i 1', r2[0])
shutil.rmtree(d)
raise SystemExit(0 if ok and r[0] in (10,30) and r2[0]==0 else 1)
