import os, shutil, tempfile, glob
from click.testing import CliRunner
import ascmhl.commands as C
from ascmhl import hashlist_xml_parser
def run(cmd, args):
    r = CliRunner().invoke(cmd, args); return r.exit_code, r.output[-300:].replace('\n',' | '), r.exception
rc=0
for name in ("a\n", "\n", "a\n ", "x\n\ty", " lead", "t ", "plain.txt", "a\n<b"):
    d = tempfile.mkdtemp(); root=os.path.join(d,'root'); os.makedirs(root)
    open(os.path.join(root,name),'w').write('A'); open(os.path.join(root,'k.txt'),'w').write('K')
    r1 = run(C.create,[root,'-h','xxh64'])
    m = sorted(glob.glob(root+'/ascmhl/*.mhl'))[0]
    hl = hashlist_xml_parser.parse(m)
    paths = sorted(mh.path for mh in hl.media_hashes)
    ok = name in paths
    r2 = run(C.verify,[root])
    print(repr(name), 'create', r1[0], 'roundtrip', ok, 'verify', r2[0])
    if not ok or r2[0]!=0: rc=1
    shutil.rmtree(d)
raise SystemExit(rc)
