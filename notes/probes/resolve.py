import ast, os, sys, collections
ROOT="/repo"; PKG="ascmhl"
mods={}
for dp,dn,fn in os.walk(os.path.join(ROOT,PKG)):
    for f in fn:
        if f.endswith(".py"):
            p=os.path.join(dp,f); rel=os.path.relpath(p,ROOT)[:-3].replace("/",".")
            if rel.endswith(".__init__"): rel=rel[:-9]
            mods[rel]=ast.parse(open(p).read(),p)
# symbol tables
funcs={}   # qual -> node
classes={} # qual -> node
imports={} # mod -> {alias: target qual}
for m,t in mods.items():
    imp={}
    for n in t.body:
        if isinstance(n,ast.Import):
            for a in n.names: imp[a.asname or a.name.split(".")[0]]=a.name if a.asname else a.name.split(".")[0]
        elif isinstance(n,ast.ImportFrom):
            base=n.module or ""
            if n.level:
                parts=m.split(".")
                # module m is not a package (except __init__), so level 1 => parent package
                pk=parts[:-n.level] if n.level<=len(parts) else []
                base=".".join(pk+([n.module] if n.module else []))
            for a in n.names:
                if a.name=="*":
                    tgt=mods.get(base)
                    if tgt:
                        for s in tgt.body:
                            if isinstance(s,(ast.FunctionDef,ast.ClassDef)): imp[s.name]=base+"."+s.name
                        # star import also re-exports the target's imports
                        imp.update({k:v for k,v in imports.get(base,{}).items()})
                else: imp[a.asname or a.name]=base+"."+a.name
        elif isinstance(n,ast.FunctionDef): funcs[m+"."+n.name]=n
        elif isinstance(n,ast.ClassDef):
            classes[m+"."+n.name]=n
            for s in n.body:
                if isinstance(s,ast.FunctionDef): funcs[m+"."+n.name+"."+s.name]=s
    imports[m]=imp
# star-import second pass (order dependence)
print(len(mods),"modules",len(funcs),"functions",len(classes),"classes")
methods_by_name=collections.defaultdict(list)
for q in funcs:
    parts=q.split(".")
    if ".".join(parts[:-1]) in classes: methods_by_name[parts[-1]].append(q)
# class attr annotations
def ann_to_class(m,ann):
    # returns ('C',qual) | ('List',inner) | ('Dict',k,v) | ('Opt',inner) | None
    if isinstance(ann,ast.Constant) and isinstance(ann.value,str):
        try: ann=ast.parse(ann.value,mode="eval").body
        except Exception: return None
    if isinstance(ann,ast.Name):
        q=imports[m].get(ann.id) or (m+"."+ann.id)
        if q in classes: return ("C",q)
        return None
    if isinstance(ann,ast.Subscript):
        b=ann.value.id if isinstance(ann.value,ast.Name) else None
        sl=ann.slice
        if b in("List","Set","list","set"): i=ann_to_class(m,sl); return ("List",i) if i else None
        if b=="Optional": return ann_to_class(m,sl)
        if b in("Dict","dict") and isinstance(sl,ast.Tuple): v=ann_to_class(m,sl.elts[1]); return ("Dict",v) if v else None
        if b=="Tuple" and isinstance(sl,ast.Tuple): return ("Tuple",[ann_to_class(m,e) for e in sl.elts])
    return None
fields={}
for cq,c in classes.items():
    m=".".join(cq.split(".")[:-1])
    for s in c.body:
        if isinstance(s,ast.AnnAssign) and isinstance(s.target,ast.Name):
            t=ann_to_class(m,s.annotation)
            if t: fields[(cq,s.target.id)]=t
print(len(fields),"typed fields")
# per-function local inference (flow-insensitive union)
def mro(cq):
    out=[cq]; c=classes[cq]; m=".".join(cq.split(".")[:-1])
    for b in c.bases:
        if isinstance(b,ast.Name):
            q=imports[m].get(b.id) or m+"."+b.id
            if q in classes: out+=mro(q)
    return out
def find_method(cq,name):
    for k in mro(cq):
        if k+"."+name in funcs: return k+"."+name
    return None
def ret_type(fq,depth=0):
    f=funcs[fq]; m=mod_of(fq)
    if f.returns is not None:
        t=ann_to_class(m,f.returns)
        if t: return t
    # returns cls() / Class()
    env=infer_env(fq,depth+1) if depth<3 else {}
    for n in ast.walk(f):
        if isinstance(n,ast.Return) and n.value is not None:
            t=etype(n.value,env,fq,depth+1)
            if t: return t
    return None
def mod_of(fq):
    parts=fq.split(".")
    for i in range(len(parts),0,-1):
        if ".".join(parts[:i]) in mods: return ".".join(parts[:i])
def cls_of(fq):
    c=".".join(fq.split(".")[:-1]); return c if c in classes else None
def etype(e,env,fq,depth=0):
    m=mod_of(fq)
    if isinstance(e,ast.Name):
        if e.id in env: return env[e.id]
        if e.id=="self" and cls_of(fq): return ("C",cls_of(fq))
        return None
    if isinstance(e,ast.Attribute):
        bt=etype(e.value,env,fq,depth)
        if bt and bt[0]=="C":
            for k in mro(bt[1]):
                if (k,e.attr) in fields: return fields[(k,e.attr)]
        return None
    if isinstance(e,ast.Subscript):
        bt=etype(e.value,env,fq,depth)
        if bt and bt[0] in("List","Dict"): return bt[1]
        return None
    if isinstance(e,ast.Call):
        tgt=resolve_call(e,env,fq,depth)
        if tgt:
            if tgt in classes: return ("C",tgt)
            if tgt=="<cls>": return ("C",cls_of(fq))
            if tgt in funcs and depth<3: return ret_type(tgt,depth)
        return None
    if isinstance(e,ast.BoolOp): 
        for v in e.values:
            t=etype(v,env,fq,depth)
            if t: return t
    return None
def resolve_call(c,env,fq,depth=0):
    m=mod_of(fq); fn=c.func
    if isinstance(fn,ast.Name):
        if fn.id=="cls" and cls_of(fq): return "<cls>"
        q=imports[m].get(fn.id) or m+"."+fn.id
        if q in funcs or q in classes: return q
        # nested function
        if fq+"."+fn.id in funcs: return fq+"."+fn.id
        return "ext:"+q if fn.id in imports[m] else ("builtin:"+fn.id)
    if isinstance(fn,ast.Attribute):
        b=fn.value
        if isinstance(b,ast.Name):
            if b.id in imports[m] and b.id not in env:
                q=imports[m][b.id]+"."+fn.attr
                if q in funcs or q in classes: return q
                # Class.method via imported class
                if imports[m][b.id] in classes:
                    r=find_method(imports[m][b.id],fn.attr); 
                    if r: return r
                return "ext:"+q
            if m+"."+b.id in classes:
                r=find_method(m+"."+b.id,fn.attr)
                if r: return r
            if b.id=="cls" and cls_of(fq):
                r=find_method(cls_of(fq),fn.attr)
                if r: return r
        bt=etype(b,env,fq,depth)
        if bt and bt[0]=="C":
            r=find_method(bt[1],fn.attr)
            if r: return r
            return "ext-on:"+bt[1]+"."+fn.attr
        # module attr chains: os.path.join
        chain=[]; x=fn
        while isinstance(x,ast.Attribute): chain.append(x.attr); x=x.value
        if isinstance(x,ast.Name) and x.id in imports[m] and x.id not in env:
            return "ext:"+imports[m][x.id]+"."+".".join(reversed(chain))
        return None
    return None
_env_cache={}
def infer_env(fq,depth=0):
    if fq in _env_cache: return _env_cache[fq]
    f=funcs[fq]; m=mod_of(fq); env={}
    _env_cache[fq]=env
    for a in f.args.args+f.args.kwonlyargs:
        if a.annotation is not None:
            t=ann_to_class(m,a.annotation)
            if t: env[a.arg]=t
    for _ in range(3):
        for n in ast.walk(f):
            if isinstance(n,ast.Assign) and len(n.targets)==1:
                t=n.targets[0]
                if isinstance(t,ast.Name):
                    ty=etype(n.value,env,fq,depth)
                    if ty: env.setdefault(t.id,ty)
                elif isinstance(t,ast.Tuple):
                    ty=etype(n.value,env,fq,depth)
                    if ty and ty[0]=="Tuple":
                        for el,et in zip(t.elts,ty[1]):
                            if isinstance(el,ast.Name) and et: env.setdefault(el.id,et)
            elif isinstance(n,ast.For):
                ty=etype(n.iter,env,fq,depth)
                if ty and ty[0]=="List" and isinstance(n.target,ast.Name): env.setdefault(n.target.id,ty[1])
                # X.items() on Dict
                if isinstance(n.iter,ast.Call) and isinstance(n.iter.func,ast.Attribute) and n.iter.func.attr=="items":
                    dt=etype(n.iter.func.value,env,fq,depth)
                    if dt and dt[0]=="Dict" and isinstance(n.target,ast.Tuple) and isinstance(n.target.elts[1],ast.Name):
                        env.setdefault(n.target.elts[1].id,dt[1])
                # generator function returning items: walk_child_histories
    return env
tot=collections.Counter(); unres=[]
allnames=set(q.split(".")[-1] for q in funcs)
for fq,f in funcs.items():
    env=infer_env(fq)
    for n in ast.walk(f):
        if isinstance(n,ast.Call):
            r=resolve_call(n,env,fq)
            name=n.func.attr if isinstance(n.func,ast.Attribute) else (n.func.id if isinstance(n.func,ast.Name) else "?")
            if r is None:
                if name in allnames:
                    cands=methods_by_name.get(name,[])
                    tot["fallback-unique" if len(cands)==1 else "UNRESOLVED-pkgname"]+=1
                    if len(cands)!=1: unres.append((fq,n.lineno,ast.unparse(n.func),cands))
                else: tot["unknown-external-method"]+=1
            elif r.startswith(("ext","builtin")): tot["external"]+=1
            else: tot["resolved-internal"]+=1
print(tot)
for u in unres: print(u)
