"""Probe: XSD content models -> regex AST; writer templates -> regex AST; language inclusion by derivatives-free
subset construction over tag alphabet. Static only (reads /repo/xsd and writer source)."""
import ast, re, sys, itertools
import xml.etree.ElementTree as ET
XS="{http://www.w3.org/2001/XMLSchema}"
# ---------- regex AST: ('sym',a) ('seq',[..]) ('alt',[..]) ('star',r) ('opt',r) ('plus',r) ('eps',)
def nfa(r):
    # Thompson; returns (start, accept, trans) with trans: dict state -> list of (sym|None, state)
    cnt=itertools.count(); T={}
    def new(): s=next(cnt); T[s]=[]; return s
    def go(r):
        k=r[0]
        if k=='eps': s=new(); return s,s
        if k=='sym': s=new(); t=new(); T[s].append((r[1],t)); return s,t
        if k=='seq':
            if not r[1]: return go(('eps',))
            s,t=go(r[1][0])
            for x in r[1][1:]:
                a,b=go(x); T[t].append((None,a)); t=b
            return s,t
        if k=='alt':
            s=new(); t=new()
            for x in r[1]:
                a,b=go(x); T[s].append((None,a)); T[b].append((None,t))
            return s,t
        if k in('star','opt','plus'):
            a,b=go(r[1]); s=new(); t=new(); T[s].append((None,a)); T[b].append((None,t))
            if k in('star','opt'): T[s].append((None,t))
            if k in('star','plus'): T[b].append((None,a))
            return s,t
        raise ValueError(k)
    s,t=go(r); return s,t,T
def closure(S,T):
    st=list(S); S=set(S)
    while st:
        x=st.pop()
        for sym,y in T[x]:
            if sym is None and y not in S: S.add(y); st.append(y)
    return frozenset(S)
def included(r1,r2,alphabet):
    """L(r1) subset of L(r2)? returns (True,None) or (False,counterexample word)"""
    s1,a1,T1=nfa(r1); s2,a2,T2=nfa(r2)
    start=(closure({s1},T1),closure({s2},T2)); seen={start:()}; q=[start]
    while q:
        A,B=q.pop(0); w=seen[(A,B)]
        if a1 in A and a2 not in B: return False,list(w)
        for sym in alphabet:
            A2=closure({y for x in A for s,y in T1[x] if s==sym},T1)
            if not A2: continue
            B2=closure({y for x in B for s,y in T2[x] if s==sym},T2)
            if (A2,B2) not in seen: seen[(A2,B2)]=w+(sym,); q.append((A2,B2))
    return True,None
# ---------- XSD
def load_xsd(path):
    root=ET.parse(path).getroot(); types={}; elems={}
    def occ(e,r):
        mn=int(e.get("minOccurs","1")); mx=e.get("maxOccurs","1")
        if mx=="unbounded": return ('star',r) if mn==0 else ('plus',r)
        if mn==0: return ('opt',r)
        return r
    def model(node):
        tag=node.tag.replace(XS,"")
        if tag=="element": return occ(node,('sym',node.get("name")))
        if tag=="sequence": return occ(node,('seq',[model(c) for c in node if c.tag.replace(XS,"") in("element","sequence","choice")]))
        if tag=="choice": return occ(node,('alt',[model(c) for c in node if c.tag.replace(XS,"") in("element","sequence","choice")]))
    def ctype(ct):
        m=('eps',); attrs={}; childtypes={}
        for c in ct.iter():
            t=c.tag.replace(XS,"")
            if t=="attribute": attrs[c.get("name")]=c.get("use","optional")
        for c in ct:
            if c.tag.replace(XS,"") in("sequence","choice"): m=model(c)
        for e in ct.iter(XS+"element"):
            # child element type: named or anonymous
            childtypes[e.get("name")]=e.get("type") or e
        return m,attrs,childtypes
    for ct in root.findall(XS+"complexType"): types[ct.get("name")]=ct
    for e in root.findall(XS+"element"): elems[e.get("name")]=e.get("type")
    return root,types,elems,ctype
# ---------- writer templates (reuse probe) 
sys.argv=["x"]; 
import importlib.util
spec=importlib.util.spec_from_file_location("emit","/verif/notes/probes/emit.py")
# run the probe module silently to reuse run()/Elem
import io, contextlib
buf=io.StringIO()
with contextlib.redirect_stdout(buf):
    emit=importlib.util.module_from_spec(spec); spec.loader.exec_module(emit)
FORMATS=["c4","md5","sha1","xxh128","xxh3","xxh64"]
def kids_regex(kids, sorted_distinct_assumed):
    out=[]
    for k in kids:
        if isinstance(k,emit.Elem):
            if k.tag.startswith("{"):   # dynamic tag over FORMATS
                out.append(('alt',[('sym',f) for f in FORMATS]))
            else: out.append(('sym',k.tag))
        else:
            kind,body,meta=k
            inner=('seq',[kids_regex([b],sorted_distinct_assumed)[1][0] if True else None for b in body]) if False else ('seq',kids_regex(body,sorted_distinct_assumed)[1])
            if kind=="STAR":
                dyn=any(isinstance(b,emit.Elem) and b.tag.startswith("{") for b in body)
                if dyn and sorted_distinct_assumed:
                    out.append(('seq',[('opt',('sym',f)) for f in sorted(FORMATS)]))   # sorted + distinct abstraction
                else: out.append(('star',inner))
            else: out.append(('opt',inner))
    return ('seq',out)
def walk(el):
    yield el
    for k in el.kids:
        for e in (walk(k) if isinstance(k,emit.Elem) else itertools.chain.from_iterable(walk(b) for b in flat(k))): yield e
def flat(k):
    kind,body,meta=k
    for b in body:
        if isinstance(b,emit.Elem): yield b
        else: yield from flat(b)
root,types,elems,ctype=load_xsd("/repo/xsd/ASCMHL.xsd")
tmap={"hash":"HashType","directoryhash":"DirectoryHashType","roothash":"RootDirectoryHashType","creatorinfo":"CreatorInfoType","ignore":"IgnoreType","hashlistreference":"HashListReferenceType","content":"DirectoryHashFormatContainerType","structure":"DirectoryHashFormatContainerType"}
builders={"_media_hash_xml_element":{}, "_directory_hash_xml_element":{}, "_root_media_hash_xml_element":{}, "_creator_info_xml_element":{}, "_ignorespec_xml_element":{}, "_ascmhlreference_xml_element":{}}
alphabet=set(FORMATS)|{"path","previousPath","metadata","content","structure","creationdate","hostname","tool","author","location","comment","pattern","c4","process","roothash","ignore","hash","directoryhash","hashlistreference","creatorinfo","processinfo","hashes","references"}
for b in builders:
    top=emit.run(emit.funcs[b],{})
    for el in walk(top):
        if el.tag in tmap:
            m,attrs,_=ctype(types[tmap[el.tag]])
            for assume in (False,True):
                ok,cex=included(kids_regex(el.kids,assume),m,sorted(alphabet))
                print(f"{b:34s} <{el.tag}> sorted+distinct-assumed={assume!s:5}  {'OK' if ok else 'NOT INCLUDED, counterexample children: '+str(cex)}")
            bad=[a for a in el.attrs if a not in attrs]
            if bad: print(f"{'':34s} <{el.tag}> undeclared attrs {bad}")
        # path child attribute check
        for k in el.kids:
            if isinstance(k,emit.Elem) and k.tag=="path" and el.tag in("hash","directoryhash"):
                anon=[e for e in types[tmap[el.tag]].iter(XS+"element") if e.get("name")=="path"][0]
                declared=[a.get("name") for a in anon.iter(XS+"attribute")]
                bad=[a for a in k.attrs if a not in declared]
                print(f"{'':34s} <{el.tag}>/<path> attrs emitted={list(k.attrs)} declared={declared} undeclared={bad}")
# document skeleton of hashlist: fold by hand here what the engine will fold from raw strings
doc_children=('seq',[('sym','creatorinfo'),('sym','processinfo'),('sym','hashes'),('opt',('sym','references'))])
m,_,_=ctype(types["HashListType"]); print("hashlist children:",included(doc_children,m,sorted(alphabet)))
hashes=('star',('alt',[('sym','directoryhash'),('sym','hash')])); m,_,_=ctype(types["HashesType"])
print("hashes children (unguarded loop):",included(hashes,m,sorted(alphabet)))
refs=('plus',('sym','hashlistreference')); m,_,_=ctype(types["ReferencesType"]); print("references (guarded len>0 => plus):",included(refs,m,sorted(alphabet)))
m,_,_=ctype(types["ProcessInfoType"])
print("processinfo alt:",included(('alt',[('seq',[('sym','process'),('sym','roothash'),('sym','ignore')]),('seq',[('sym','process'),('sym','ignore')])]),m,sorted(alphabet)))
