import os, shutil, tempfile
from click.testing import CliRunner
import ascmhl.commands as C
def run(cmd, args):
    r = CliRunner().invoke(cmd, args); return r.exit_code, r.output[-300:].replace('\n',' | '), repr(r.exception)[:80]
def w(p, s):
    os.makedirs(os.path.dirname(p), exist_ok=True); open(p,'w').write(s)
# (1) verify -dh after an ignore pattern was added in a later generation
d = tempfile.mkdtemp(); root=os.path.join(d,'root')
w(root+'/a.txt','A'); w(root+'/x.tmp','X')
print('create', run(C.create,[root,'-h','xxh64'])[0])
print('create -i *.tmp', run(C.create,[root,'-h','xxh64','-i','*.tmp'])[0])
r1 = run(C.verify,[root,'-dh']); print('verify -dh (untouched tree)', r1)
print('verify', run(C.verify,[root])[0])
shutil.rmtree(d)
# (2) nested history removed and ignored
d = tempfile.mkdtemp(); root=os.path.join(d,'root')
w(root+'/a.txt','A'); w(root+'/1/n.txt','N')
run(C.create,[root+'/1','-h','xxh64']); print('create root', run(C.create,[root,'-h','xxh64'])[0])
shutil.rmtree(root+'/1')
r2 = run(C.create,[root,'-h','xxh64','-i','1']); print('create -i 1', r2)
print('verify -i 1', run(C.verify,[root,'-i','1'])[0], 'diff -i 1', run(C.diff,[root,'-i','1'])[0])
shutil.rmtree(d)
# (3) flatten of a history without file records
d = tempfile.mkdtemp(); root=os.path.join(d,'root'); os.makedirs(root+'/empty'); out=os.path.join(d,'out'); os.makedirs(out)
print('create', run(C.create,[root,'-h','xxh64'])[0])
r3 = run(C.flatten,[root,out]); print('flatten', r3[0], [os.listdir(os.path.join(out,x)) for x in os.listdir(out)])
shutil.rmtree(d)
