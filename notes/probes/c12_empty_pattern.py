import os, shutil, tempfile, glob
from click.testing import CliRunner
import ascmhl.commands as C
def run(cmd, args):
    r = CliRunner().invoke(cmd, args); return r.exit_code, r.output[-200:].replace('\n',' | '), repr(r.exception)[:90]
d = tempfile.mkdtemp(); root=os.path.join(d,'root'); os.makedirs(root); open(root+'/a.txt','w').write('A')
print('create -i ""', run(C.create,[root,'-h','xxh64','-i','']))
r2=run(C.create,[root,'-h','xxh64']); print('create', r2)
print('verify', run(C.verify,[root]))
print(sorted(os.listdir(root+'/ascmhl')))
shutil.rmtree(d)
raise SystemExit(0 if r2[0]==0 else 1)
