import os, shutil, tempfile, glob
from click.testing import CliRunner
import ascmhl.commands as C
def run(cmd, args):
    r = CliRunner().invoke(cmd, args); return r.exit_code, r.output[-200:].replace('\n',' | '), r.exception
d = tempfile.mkdtemp(); root=os.path.join(d,'ro\not')
os.makedirs(root); open(root+'/a.txt','w').write('A')
print('create1', run(C.create,[root,'-h','xxh64']))
import time; time.sleep(1.1)
print('create2', run(C.create,[root,'-h','xxh64']))
print(sorted(os.listdir(root+'/ascmhl')))
print('verify', run(C.verify,[root]))
print('info', run(C.info,[root]))
shutil.rmtree(d)
