"""Variants for the two-way self-test (see selftest.py). `expect` = rule id that must report the variant, or 'silent'
for behaviour-preserving rewrites that must pass. Breaking variants marked (suite-blind) were applied to scratch copies
during development and survive the repository's 79 tests."""

VARIANTS = []


def V(name, props, file, old, new, expect):
    VARIANTS.append({"name": name, "props": props if isinstance(props, list) else [props], "file": file, "old": old, "new": new, "expect": expect})


def P(name, props, patch, expect="any"):
    VARIANTS.append({"name": name, "props": props if isinstance(props, list) else [props], "patch": patch, "expect": expect})


H, C, HI, G, HX, CX, TR, IG, UT, UP = (
    "ascmhl/hasher.py", "ascmhl/commands.py", "ascmhl/history.py", "ascmhl/generator.py", "ascmhl/hashlist_xml_parser.py",
    "ascmhl/chain_xml_parser.py", "ascmhl/traverse.py", "ascmhl/ignore.py", "ascmhl/utils.py", "ascmhl/cli/update.py",
)

def _os_path_exists(rel):
    import os

    return os.path.exists(os.path.join(os.path.dirname(os.path.abspath(__file__)), rel))


# ------------------------------------------------------------------ seeds written by independent sub-agents (see seeded/*/meta.json)
for _id in ("C01", "C02", "C03", "C04", "C05", "C06", "C07", "C08", "C09", "C10", "C11", "C12", "C13", "C14", "C15", "C16", "C17", "C18", "C19", "C20"):
    P(f"seed {_id}_a", _id, f"seeded/{_id}_a/patch.diff")
    P(f"seed {_id}_b (second round)", _id, f"seeded/{_id}_b/patch.diff")
    if _os_path_exists(f"seeded/{_id}_c/patch.diff"):
        P(f"seed {_id}_c (third round)", _id, f"seeded/{_id}_c/patch.diff")
    if _os_path_exists(f"seeded/{_id}_d/patch.diff"):
        P(f"seed {_id}_d (fourth round)", _id, f"seeded/{_id}_d/patch.diff")
    if _os_path_exists(f"seeded/{_id}_e/patch.diff"):
        P(f"seed {_id}_e (fifth round)", _id, f"seeded/{_id}_e/patch.diff")
    if _os_path_exists(f"seeded/{_id}_f/patch.diff"):
        P(f"seed {_id}_f (sixth round)", _id, f"seeded/{_id}_f/patch.diff")
    if _os_path_exists(f"seeded/{_id}_g/patch.diff"):
        P(f"seed {_id}_g (seventh round)", _id, f"seeded/{_id}_g/patch.diff")
    if _os_path_exists(f"seeded/{_id}_h/patch.diff"):
        P(f"seed {_id}_h (eighth round)", _id, f"seeded/{_id}_h/patch.diff")
    if _os_path_exists(f"seeded/{_id}_i/patch.diff"):
        P(f"seed {_id}_i (ninth round)", _id, f"seeded/{_id}_i/patch.diff")
    if _os_path_exists(f"seeded/{_id}_j/patch.diff"):
        P(f"seed {_id}_j (tenth round)", _id, f"seeded/{_id}_j/patch.diff")
    if _os_path_exists(f"seeded/{_id}_k/patch.diff"):
        P(f"seed {_id}_k (eleventh round)", _id, f"seeded/{_id}_k/patch.diff")
    if _os_path_exists(f"seeded/{_id}_l/patch.diff"):
        P(f"seed {_id}_l (twelfth round)", _id, f"seeded/{_id}_l/patch.diff")
    if _os_path_exists(f"seeded/{_id}_m/patch.diff"):
        P(f"seed {_id}_m (thirteenth round)", _id, f"seeded/{_id}_m/patch.diff")

# breaking variants written on top of refactorings, so that a violation has to be found THROUGH the normalised form (N6 priority table, N7 set methods)
P("r73 (first-match table) with the two highest priorities swapped (suite-blind)", "C03", "seeded/H_r73_priorities_swapped/patch.diff", "R3.6")
P("r71 (set operators as methods) with the operands of the difference swapped (suite-blind)", ["C17", "C03"], "seeded/H_r71_difference_swapped/patch.diff", "R3.1")

# ------------------------------------------------------------------ behaviour-preserving refactorings written by independent sub-agents
# (refactors/r*/patch.diff, each passes the 79 tests): every check must stay silent (exit 0) on every one of them
import glob as _glob
import os as _os

_ALL = ["C%02d" % i for i in range(1, 21)]
# rewrites that leave the model (reported as `cannot analyse`, exit 2, by the listed checks - never as a violation):
#   r45: a NamedTuple WITH a method bundles the six creator options (R11.8 cannot take it apart)
#   r77: like r58, the c4 codec rewritten (divmod, digit table constant, decoder as a range loop): R1.4 does not recognise the digit accumulation
#   r48: the manifest reader dispatches through dictionaries and setattr() with computed names (call graph soundness condition)
#   r53: the manifest reader split into per-tag helpers that receive a parser-state object (reader decision table not readable off `parse`)
#   r58: the c4 codec rewritten with divmod / rjust / f-string prepending (R1.4 recognises the digit accumulation by shape)
_NO_ALARM_ONLY = {"r45": ["C11"], "r48": _ALL, "r53": ["C01", "C02", "C03", "C08", "C10", "C11", "C19"], "r58": ["C01", "C05", "C07"], "r77": ["C01", "C05", "C07"]}
for _d in sorted(_glob.glob(_os.path.join(_os.path.dirname(_os.path.abspath(__file__)), "refactors", "r*"))):
    _r = _os.path.basename(_d)
    _weak = _NO_ALARM_ONLY.get(_r, [])
    if [c for c in _ALL if c not in _weak]:
        P(f"refactoring {_r} (behaviour preserving)", [c for c in _ALL if c not in _weak], f"refactors/{_r}/patch.diff", "silent")
    if _weak:
        P(f"refactoring {_r} (behaviour preserving, outside the model)", list(_weak), f"refactors/{_r}/patch.diff", "no-alarm")

# ------------------------------------------------------------------ C01
LOOP1 = """            chunk = fd.read(size)
            while chunk:
                hasher.update(chunk)
                chunk = fd.read(size)

        return hasher.string_digest()"""
V("hash only the first chunk (suite-blind)", ["C01", "C03", "C05"], H, LOOP1, """            chunk = fd.read(size)
            if chunk:
                hasher.update(chunk)

        return hasher.string_digest()""", "R1.1")
V("stop after 4096 chunks", "C01", H, LOOP1, """            chunk = fd.read(size)
            n = 0
            while chunk and n < 4096:
                hasher.update(chunk)
                chunk = fd.read(size)
                n += 1

        return hasher.string_digest()""", "R1.1")
V("walrus loop (equivalent)", ["C01", "C03"], H, LOOP1, """            while chunk := fd.read(size):
                hasher.update(chunk)

        return hasher.string_digest()""", "silent")
V("4 MiB chunks (equivalent)", "C01", H, "            size = 1024 * 1024  # chunk size 1MB\n            chunk = fd.read(size)\n            while chunk:\n                hasher.update(chunk)", "            size = 4 * 1024 * 1024\n            chunk = fd.read(size)\n            while chunk:\n                hasher.update(chunk)", "silent")
V("c4 skipped after first chunk in multi-format loop", ["C01", "C09"], H, """            while chunk:
                # Update each stored hasher with the read chunk
                for hash_format in hasher_lookup:
                    hasher_lookup[hash_format].update(chunk)

                chunk = fd.read(size)""", """            first = True
            while chunk:
                # Update each stored hasher with the read chunk
                for hash_format in hasher_lookup:
                    if first or hash_format != "c4":
                        hasher_lookup[hash_format].update(chunk)
                first = False
                chunk = fd.read(size)""", "R1.1")
V("text mode", "C01", H, '        with open(file_path, "rb") as fd:', '        with open(file_path, "r") as fd:', "R1.1")
V("xxh3 mapped to xxh64", ["C01", "C03"], H, "        return xxhash.xxh3_64", "        return xxhash.xxh64", "R1.2")
V("c4 padded on the right", ["C01", "C05"], H, "c4_string.rjust(c4id_length - 2, zero)", "c4_string.ljust(c4id_length - 2, zero)", "R1.4")
V("c4 decoder starts at 3", "C01", H, "        i = 2\n\n        while i < c4id_length:", "        i = 3\n\n        while i < c4id_length:", "R1.4")
V("hex digest upper-cased", "C01", H, "        return self.hasher.hexdigest()", "        return self.hasher.hexdigest().upper()", "R1.3")

# ------------------------------------------------------------------ C02
V("traversal skips dot-files (suite-blind)", ["C02", "C07", "C12"], TR, "        path = join(top, name)\n        children.append((name, isdir(path)))", '        if name.startswith("."):\n            continue\n        path = join(top, name)\n        children.append((name, isdir(path)))', "R2.1")
V("folders recorded only with directory hashes", "C02", C, """        session.append_multiple_format_directory_hashes(
            folder_path, modification_date, dir_content_hash_lookup, dir_structure_hash_lookup
        )

    if len(existing_history.hash_lists) > 0:""", """        if not no_directory_hashes:
            session.append_multiple_format_directory_hashes(
                folder_path, modification_date, dir_content_hash_lookup, dir_structure_hash_lookup
            )

    if len(existing_history.hash_lists) > 0:""", "R2.2")
V("empty files not sealed", "C02", C, """            else:
                seal_result = seal_file_path(existing_history, file_path, hash_format_list, session)

                for hash_format, result_tuple""", """            elif os.path.getsize(file_path) > 0:
                seal_result = seal_file_path(existing_history, file_path, hash_format_list, session)

                for hash_format, result_tuple""", "R2.2")
V("yield from recursion (equivalent)", ["C02", "C07", "C12"], TR, "                for x in post_order_lexicographic(path, ignore_pathspec, root):\n                    yield x", "                yield from post_order_lexicographic(path, ignore_pathspec, root)", "silent")
V("sorted() instead of sort() (equivalent)", ["C02", "C13"], TR, "    names = os.listdir(top)\n    names.sort()", "    names = sorted(os.listdir(top))", "silent")

# ------------------------------------------------------------------ C03
V("discard after the directory skip (suite-blind)", "C03", C, """            file_path = os.path.join(folder_path, item_name)
            not_found_paths.discard(file_path)
            relative_path = existing_history.get_relative_file_path(file_path)
            history, history_relative_path = existing_history.find_history_for_path(relative_path)
            if is_dir:
                # TODO: find new directories here
                continue

            for hash_list in history.hash_lists:
                for media_hash in hash_list.media_hashes:
                    if media_hash.path != history_relative_path:
                        continue
                    history_relative_path = media_hash.previous_path or history_relative_path
                    break

            if single_file""", """            file_path = os.path.join(folder_path, item_name)
            relative_path = existing_history.get_relative_file_path(file_path)
            history, history_relative_path = existing_history.find_history_for_path(relative_path)
            if is_dir:
                # TODO: find new directories here
                continue
            not_found_paths.discard(file_path)

            for hash_list in history.hash_lists:
                for media_hash in hash_list.media_hashes:
                    if media_hash.path != history_relative_path:
                        continue
                    history_relative_path = media_hash.previous_path or history_relative_path
                    break

            if single_file""", "R3.1")
V("new-files beats failed in verify (suite-blind)", "C03", C, """    if num_new_files > 0:
        exception = errors.NewFilesFoundException()
    if num_failed_verifications > 0:
        exception = errors.VerificationFailedException()

    if exception:
        raise exception


def verify_directory""", """    if num_failed_verifications > 0:
        exception = errors.VerificationFailedException()
    if num_new_files > 0:
        exception = errors.NewFilesFoundException()

    if exception:
        raise exception


def verify_directory""", "R3.6")
V("size shortcut skips hashing", "C03", C, """                current_hash = hash_file(file_path, original_hash_entry.hash_format)
                if original_hash_entry.hash_string == current_hash:""", """                if original_hash_entry.media_hash.file_size == os.path.getsize(file_path) and verbose is False:
                    current_hash = original_hash_entry.hash_string
                else:
                    current_hash = hash_file(file_path, original_hash_entry.hash_format)
                if original_hash_entry.hash_string == current_hash:""", "R3.8")
V("new-files exit code 20", "C03", "ascmhl/errors.py", "class NewFilesFoundException(click.ClickException):\n    exit_code = 21", "class NewFilesFoundException(click.ClickException):\n    exit_code = 20", "R3.5")
V("new file counted only when verbose", "C03", C, """                    logger.error(f"found new file {relative_path}")
                    num_new_files += 1
                    continue

                # create a new hash""", """                    logger.error(f"found new file {relative_path}")
                    if verbose:
                        num_new_files += 1
                    continue

                # create a new hash""", "R3.4")
V("single-file guard dropped again", "C03", C, "    if single_file is not None and not found_single_file:", "    if not found_single_file:", "R3.6")
V("exit tail as elif chain (equivalent)", "C03", C, """    if num_new_files > 0:
        exception = errors.NewFilesFoundException()
    if num_failed_verifications > 0:
        exception = errors.VerificationFailedException()

    if exception:
        raise exception


def verify_directory""", """    if num_failed_verifications > 0:
        exception = errors.VerificationFailedException()
    elif num_new_files > 0:
        exception = errors.NewFilesFoundException()

    if exception:
        raise exception


def verify_directory""", "silent")

# ------------------------------------------------------------------ C04
V("lookup scans generations in reverse", ["C04"], HI, """        for hash_list in self.hash_lists:
            media_hash = hash_list.find_media_hash_for_path(relative_path)
            if media_hash is None:
                continue
            for hash_entry in media_hash.hash_entries:
                if hash_format is not None""", """        for hash_list in reversed(self.hash_lists):
            media_hash = hash_list.find_media_hash_for_path(relative_path)
            if media_hash is None:
                continue
            for hash_entry in media_hash.hash_entries:
                if hash_format is not None""", "R4.2")
V("new formats appended ungated", "C04", C, "        # only add the new hash format to the session if the previous hashes are verified\n        if success:\n            success &=", "        # only add the new hash format to the session if the previous hashes are verified\n        if True:\n            success &=", "R4.4")
V("short digests always verify", ["C04", "C03"], G, """                if existing_hash_entry.hash_string == hash_string:
                    hash_entry.action = "verified"
                    logger.verbose(f"  verified                      {relative_path}  {hash_format}: OK")""", """                if existing_hash_entry.hash_string == hash_string or len(hash_string) < 16:
                    hash_entry.action = "verified"
                    logger.verbose(f"  verified                      {relative_path}  {hash_format}: OK")""", "R4.1")
V("promotion without abort", "C04", HI, """                    if required_hash_entry.action != "verified":
                        raise AssertionError("hash entry for new hash not verified", hash_entry, required_hash_entry)
                    hash_entry.action = "verified\"""", """                    if required_hash_entry.action != "verified":
                        logger.error("hash entry for new hash not verified")
                    hash_entry.action = "verified\"""", "R4.5")
V("generations sorted descending", ["C04", "C06"], HI, "        hash_lists.sort(key=lambda x: x.generation_number)", "        hash_lists.sort(key=lambda x: x.generation_number, reverse=True)", "R")
V("reference format no longer generated", "C04", C, "            hash_formats_to_generate.append(original_hash_entry.hash_format)", "            pass", "R4.7")

# ------------------------------------------------------------------ C05
V("only the last chain entry verified", "C05", HI, "for generation in history.chain.generations:", "for generation in history.chain.generations[-1:]:", "R5.1")
V("digest prefix compared", "C05", HI, "if hash != generation.hash_string:", "if hash[:16] != generation.hash_string[:16]:", "R5.1")
V("log instead of raise", "C05", HI, "                        raise errors.ModifiedMHLManifestFileException(expected_file)", '                        logger.error("modified")', "R5.1")
V("large manifests skipped", "C05", HI, "                if os.path.exists(expected_file):\n                    hash", "                if os.path.exists(expected_file):\n                    if os.path.getsize(expected_file) > 100000: continue\n                    hash", "R5.1")
V("collection folder created before loading", "C05", C, """    existing_history = MHLHistory.load_from_path(root_path)

    # create the ignore specification
    ignore_spec = ignore.MHLIgnoreSpec(existing_history.latest_ignore_patterns(), ignore_list, ignore_spec_file)

    # start a verification session on the existing history
    collection_history = MHLHistory.create_collection_at_path(destination_path)""", """    collection_history = MHLHistory.create_collection_at_path(destination_path)
    existing_history = MHLHistory.load_from_path(root_path)

    # create the ignore specification
    ignore_spec = ignore.MHLIgnoreSpec(existing_history.latest_ignore_patterns(), ignore_list, ignore_spec_file)
""", "R5.4")
V("modified-manifest exit code 11", "C05", "ascmhl/errors.py", "class ModifiedMHLManifestFileException(click.ClickException):\n    exit_code = 31", "class ModifiedMHLManifestFileException(click.ClickException):\n    exit_code = 11", "R5.6")
V("== with else-raise (equivalent)", "C05", HI, """                    if hash != generation.hash_string:
                        raise errors.ModifiedMHLManifestFileException(expected_file)""", """                    if hash == generation.hash_string:
                        pass
                    else:
                        raise errors.ModifiedMHLManifestFileException(expected_file)""", "silent")

# ------------------------------------------------------------------ C06
V("chain keeps the last two entries (suite-blind)", "C06", CX, "    for generation in chain.generations:\n        _write_xml_element_to_file", "    for generation in chain.generations[-2:]:\n        _write_xml_element_to_file", "R6.4")
V("generation number = len(lists)", "C06", HI, "        index = self.latest_generation_number() + 1", "        index = len(self.hash_lists)", "R6.2")
V("three-digit number", "C06", HI, 'file_name = f"{index:04d}_{folder_name}_{date_string}{ascmhl_file_extension}"', 'file_name = f"{index:03d}_{folder_name}_{date_string}{ascmhl_file_extension}"', "R6.3")
V("new chain entry dropped", "C06", CX, '    # write new hashlist\n    _write_xml_element_to_file(file, _hashlist_xml_element_from_hashlist(new_hash_list), "  ")\n', "", "R6.4")
V("old chain entries written from format field", "C06", CX, "            E.path(convert_local_path_to_posix(generation.ascmhl_filename)),\n            E.c4(generation.hash_string),", "            E.path(convert_local_path_to_posix(generation.ascmhl_filename)),\n            E.c4(generation.hash_format),", "R6.4")
V("local time in the file name (suite-blind)", ["C06", "C16"], UT, 'datetime.datetime.now(datetime.timezone.utc), "%Y-%m-%d_%H%M%SZ"', 'datetime.datetime.now(), "%Y-%m-%d_%H%M%SZ"', "R16.4")

# ------------------------------------------------------------------ C07
V("directory structure bound to the child's content hash", ["C07", "C09"], H, "        hash_bytes = self.hasher.bytes_from_string_digest(structure_hash_string)", "        hash_bytes = self.hasher.bytes_from_string_digest(content_hash_string)", "R7.1")
V("list hash without sort", ["C07", "C13"], H, "        hash_list.sort()\n", "", "R7.2")
V("formats crossed at the call site", "C07", C, "                            path_content_hash_lookup[hash_format],\n                            path_structure_hash_lookup[hash_format],", "                            path_content_hash_lookup[hash_format_list[0]],\n                            path_structure_hash_lookup[hash_format_list[0]],", "R7.3")
V("content/structure swapped when recording", "C07", G, """                hash_entry = MHLHashEntry(hash_format, content_hash_string)
                # Attempt to add the structure, if available
                hash_entry.structure_hash_string = structure_hash_string""", """                hash_entry = MHLHashEntry(hash_format, structure_hash_string)
                # Attempt to add the structure, if available
                hash_entry.structure_hash_string = content_hash_string""", "R7.6")
V("digest text hashed instead of bytes", "C07", H, "            hasher.update(cls.bytes_from_string_digest(hash_string))", '            hasher.update(hash_string.encode("utf8"))', "R7.2")
V("full path bound instead of base name", "C07", H, '        path_bytes = os.path.basename(os.path.normpath(path)).encode("utf8")\n        hash_bytes = self.hasher.bytes_from_string_digest(content_hash_string)', '        path_bytes = os.path.normpath(path).encode("utf8")\n        hash_bytes = self.hasher.bytes_from_string_digest(content_hash_string)', "R7.1")

# ------------------------------------------------------------------ C08
V("parents written when children untouched only", "C08", G, "                if history not in referenced_hash_lists:\n                    continue", "                if history not in referenced_hash_lists and history.parent_history is not None:\n                    continue", "R8.6")
V("reference registered before the child is written", "C08", G, """            history.write_new_generation(new_hash_list)
            relative_generation_path = self.root_history.get_relative_file_path(new_hash_list.file_path)
            logger.verbose(f"Created new generation {relative_generation_path}")
            if history.parent_history is not None:
                referenced_hash_lists[history.parent_history].append(new_hash_list)
""", """            if history.parent_history is not None:
                referenced_hash_lists[history.parent_history].append(new_hash_list)
            history.write_new_generation(new_hash_list)
            relative_generation_path = self.root_history.get_relative_file_path(new_hash_list.file_path)
            logger.verbose(f"Created new generation {relative_generation_path}")
""", "R8.5")
V("walk yields the parent first", "C08", HI, "        for child in history.child_histories:\n            yield from MHLHistory.walk_child_histories(child)\n        yield history", "        yield history\n        for child in history.child_histories:\n            yield from MHLHistory.walk_child_histories(child)", "R8.4")
V("descent continues below a child", "C08", HI, "                self.append_child_history(child_history)\n                directories.clear()", "                self.append_child_history(child_history)", "R8.3")

# ------------------------------------------------------------------ C09
V("sub-folder failure not booked", "C09", C, """                        if num_current_successful_verifications == 1:
                            num_failed_verifications += 1
                            add_detected_failure_for_format(directory_hash_entry.hash_format)""", """                        if num_current_successful_verifications == 1:
                            num_failed_verifications += 1""", "R9.5")
V("root verdict dropped again", "C09", C, """                            num_current_successful_verifications = _compare_and_log_directory_hashes(
                                ".", root_hash_entry, dir_content_hash, dir_structure_hash
                            )
                            if num_current_successful_verifications == 1:
                                num_failed_verifications += 1
                                add_detected_failure_for_format(hash_format)""", """                            _compare_and_log_directory_hashes(
                                ".", root_hash_entry, dir_content_hash, dir_structure_hash
                            )""", "R9.1")
V("only the last generation's directory entries compared", "C09", HI, """        for hash_list in self.hash_lists:
            media_hash = hash_list.find_media_hash_for_path(relative_path)
            if media_hash is None:
                continue
            if media_hash.is_directory:""", """        for hash_list in self.hash_lists[-1:]:
            media_hash = hash_list.find_media_hash_for_path(relative_path)
            if media_hash is None:
                continue
            if media_hash.is_directory:""", "R9.5")
V("exit 12 only when verbose", "C09", C, "    if failures_per_format_lookup:\n        if len(failures_per_format_lookup.keys()) == len(hash_format_list):", "    if failures_per_format_lookup and verbose:\n        if len(failures_per_format_lookup.keys()) == len(hash_format_list):", "R9.5")
V("None guard removed again", "C09", HI, """                if hash_list.process_info.root_media_hash is None:
                    continue
                for hash_entry in hash_list.process_info.root_media_hash.hash_entries:""", """                for hash_entry in hash_list.process_info.root_media_hash.hash_entries:""", "R9.3")

# ------------------------------------------------------------------ C10
V("reader forgets phone", "C10", HX, '                        if current_object.authors[-1].phone == None:\n                            current_object.authors[-1].phone = element.attrib.get("phone")', "                        pass", "R10.1")
V("role written from e-mail", "C10", HX, '            author_element.attrib["role"] = author.role', '            author_element.attrib["role"] = author.email', "R10.1")
V("path not converted back on reading", "C10", HX, "                        current_object.path = convert_posix_to_local_path(element.text)\n                        file_size", "                        current_object.path = element.text\n                        file_size", "R10")
V("size parsed into the modification date", "C10", HX, "                        current_object.file_size = int(file_size) if file_size else None", "                        current_object.last_modification_date = int(file_size) if file_size else None", "R10.1")
V("markup built with an f-string", "C10", HX, "    hash_element = E.hash(path_element)", '    hash_element = E.hash(path_element)\n    _x = f"<note>{media_hash.path}</note>"', "R10.2")
V("structure text read into the content digest", ["C10", "C07"], HX, "                                entry.structure_hash_string = element.text", "                                entry.hash_string = element.text", "R")

# ------------------------------------------------------------------ C11
V("references written when empty", "C11", HX, "    if len(hash_list.referenced_hash_lists) > 0:\n        _write", "    if True:\n        _write", "R11.1")
V("hashes written when empty again", "C11", HX, "    if len(hash_list.media_hashes) > 0:\n        hashes_tag", "    if True:\n        hashes_tag", "R11.1")
V("format elements unsorted in <hash>", "C11", HX, "    sorted_hash_entries = sorted(media_hash.hash_entries, key=lambda hash_entry: hash_entry.hash_format)", "    sorted_hash_entries = media_hash.hash_entries", "R11.1")
V("request list unsorted", "C11", C, """    hash_format_list = sorted(hash_formats)

    for folder_path, children in post_order_lexicographic(root_path, session.ignore_spec.get_path_spec()):""", """    hash_format_list = list(hash_formats)

    for folder_path, children in post_order_lexicographic(root_path, session.ignore_spec.get_path_spec()):""", "R11.1")
V("new action constant", "C11", G, """                    hash_entry.action = "failed"
                    logger.error(
                        f"ERROR: hash mismatch for        {relative_path}  "
                        f"{hash_format} (old): {existing_hash_entry.hash_string}, "
                        f"{hash_format} (new): {hash_string}"
                    )
            else:""", """                    hash_entry.action = "mismatch"
                    logger.error(
                        f"ERROR: hash mismatch for        {relative_path}  "
                        f"{hash_format} (old): {existing_hash_entry.hash_string}, "
                        f"{hash_format} (new): {hash_string}"
                    )
            else:""", "R11.2")
V("comment before location", "C11", HX, """    if creator_info.location is not None:
        info_element.append(E.location(creator_info.location))

    if creator_info.comment is not None:
        info_element.append(E.comment(creator_info.comment))""", """    if creator_info.comment is not None:
        info_element.append(E.comment(creator_info.comment))

    if creator_info.location is not None:
        info_element.append(E.location(creator_info.location))""", "R11.1")
V("zero-padded sequence number", "C11", CX, '    hash_list_element.attrib["sequencenr"] = str(hash_list.generation_number)', '    hash_list_element.attrib["sequencenr"] = "%04d" % hash_list.generation_number', "R11.2")
V("duplicate-format guard removed again", ["C11", "C18"], G, "        if media_hash.find_hash_entry_for_format(hash_format) is None:\n            media_hash.append_hash_entry(hash_entry)", "        media_hash.append_hash_entry(hash_entry)", "R11.m")
V("sort inside the directory builder (equivalent)", "C11", HX, "    for hash_entry in media_hash.hash_entries:\n        entry_element_content = E(hash_entry.hash_format)", "    for hash_entry in sorted(media_hash.hash_entries, key=lambda e: e.hash_format):\n        entry_element_content = E(hash_entry.hash_format)", "silent")

# ------------------------------------------------------------------ C12
V("verify ignores the -i patterns", "C12", C, """    ignore_spec = ignore.MHLIgnoreSpec(existing_history.latest_ignore_patterns(), ignore_list, ignore_spec_file)

    found_single_file = False""", """    ignore_spec = ignore.MHLIgnoreSpec(existing_history.latest_ignore_patterns())

    found_single_file = False""", "R12.1")
V("diff's missing filter with the default spec", "C12", C, """    exception = test_for_missing_files(not_found_paths, root_path, ignore_spec)
    if num_failed_verifications > 0:
        exception = errors.VerificationFailedException()
    if not exception and num_new_files > 0:""", """    exception = test_for_missing_files(not_found_paths, root_path)
    if num_failed_verifications > 0:
        exception = errors.VerificationFailedException()
    if not exception and num_new_files > 0:""", "R12.3")
V("pattern list sorted on the way out", "C12", IG, "    def get_pattern_list(self):\n        return self._ignore_list.copy()", "    def get_pattern_list(self):\n        return sorted(self._ignore_list)", "R12.6")
V("patterns propagated to the root history only", "C12", G, """            new_hash_list.process_info.ignore_spec = MHLIgnoreSpec(
                history.latest_ignore_patterns(), self.ignore_spec.get_pattern_list()
            )""", """            if history is self.root_history:
                new_hash_list.process_info.ignore_spec = MHLIgnoreSpec(
                    history.latest_ignore_patterns(), self.ignore_spec.get_pattern_list()
                )""", "R12.5")
V("dedup through sorted(set())", "C12", IG, "            self._ignore_list.extend(line for line in patterns_to_append if line not in self._ignore_list)", "            self._ignore_list = sorted(set(self._ignore_list + list(patterns_to_append)))", "R12.4")
V("order-preserving dedup (equivalent)", "C12", IG, "            self._ignore_list.extend(line for line in patterns_to_append if line not in self._ignore_list)", "            self._ignore_list = list(dict.fromkeys(self._ignore_list + list(patterns_to_append)))", "silent")
V("-sf spec dropped again", "C12", C, "    session = MHLGenerationCreationSession(existing_history, ignore_spec)\n\n    num_failed_verifications = 0\n\n    hash_format_list = sorted(hash_formats)\n\n    for path in single_file:", "    session = MHLGenerationCreationSession(existing_history)\n\n    num_failed_verifications = 0\n\n    hash_format_list = sorted(hash_formats)\n\n    for path in single_file:", "R12.1")

# ------------------------------------------------------------------ C13
V("names.sort() removed (suite-blind)", ["C13"], TR, "    names.sort()\n", "", "R13.1")
V("sorted by length", "C13", TR, "    names.sort()", "    names.sort(key=len)", "R13.1")
V("generation sort removed", "C13", HI, "        hash_lists.sort(key=lambda x: x.generation_number)\n", "", "R13.1")
V("child discovery unsorted again", "C13", HI, "            directories.sort()\n", "", "R13.1")
V("absolute path matched again", "C13", TR, "ignore_pathspec.match_file(os.path.relpath(file_path, root))", "ignore_pathspec.match_file(file_path)", "R13.2")

# ------------------------------------------------------------------ C14
V("verify -dh commits its session (suite-blind)", "C14", C, """        session.append_multiple_format_directory_hashes(
            folder_path, modification_date, dir_content_hash_lookup, dir_structure_hash_lookup
        )
        logger.verbose_logging = verbose""", """        session.append_multiple_format_directory_hashes(
            folder_path, modification_date, dir_content_hash_lookup, dir_structure_hash_lookup
        )
        logger.verbose_logging = verbose
        if False: commit_session(session, None, None, None, None, None, None)""", "R14")
V("media file opened r+b", "C14", H, '        with open(filepath, "rb") as fd:', '        with open(filepath, "r+b") as fd:', "R14")
V("mtime restored with utime", "C14", C, "    relative_path = existing_history.get_relative_file_path(file_path)\n    file_size = os.path.getsize(file_path)", "    relative_path = existing_history.get_relative_file_path(file_path)\n    os.utime(file_path, (os.path.getatime(file_path), os.path.getmtime(file_path)))\n    file_size = os.path.getsize(file_path)", "R14.3")
V("flatten commits into the source history", "C14", C, "    session = MHLGenerationCreationSession(collection_history, ignore_spec)", "    session = MHLGenerationCreationSession(existing_history, ignore_spec)", "R14.2")

# ------------------------------------------------------------------ C15
V("replace before close", "C15", CX, "    file.flush()\n    file.close()\n    os.replace(temp_file_path, chain.file_path)", "    file.flush()\n    os.replace(temp_file_path, chain.file_path)\n    file.close()", "R15.1")
V("temporary name ends with .mhl", "C15", HX, '    temp_file_path = file_path + ".tmp"', '    temp_file_path = file_path + ".tmp.mhl"', "R15.1")
V("manifest written in place again", "C15", HX, '    file = open(temp_file_path, "wb")', '    file = open(file_path, "wb")', "R15.1")
V("validation skipped", ["C15", "C04"], HI, "        self._validate_new_hash_list(new_hash_list)\n        file_name, generation_number = self._new_generation_filename()", "        file_name, generation_number = self._new_generation_filename()", "R")

# ------------------------------------------------------------------ C16
V("naive isoformat", "C16", UT, "    return date_to_format.astimezone().isoformat()", "    return date_to_format.isoformat()", "R16.1")
V("offset of now again", "C16", UT, "    return date_to_format.astimezone().isoformat()", "    return date_to_format.replace(tzinfo=datetime.timezone(datetime.timedelta(seconds=-time.timezone))).isoformat()", "R16.1")
V("size truthiness again", "C16", HX, '    if media_hash.file_size is not None:\n        path_element.attrib["size"] = str(media_hash.file_size)\n    if media_hash.last_modification_date:\n        path_element.attrib["lastmodificationdate"] = datetime_isostring(media_hash.last_modification_date)\n\n    hash_element = E.hash(path_element)', '    if media_hash.file_size:\n        path_element.attrib["size"] = str(media_hash.file_size)\n    if media_hash.last_modification_date:\n        path_element.attrib["lastmodificationdate"] = datetime_isostring(media_hash.last_modification_date)\n\n    hash_element = E.hash(path_element)', "R16.2")
V("size of the parent folder recorded", "C16", C, "    file_size = os.path.getsize(file_path)", "    file_size = os.path.getsize(os.path.dirname(file_path))", "R16.3")
V("realpath wrapper (equivalent)", "C16", C, "    file_size = os.path.getsize(file_path)", "    file_size = os.path.getsize(os.path.realpath(file_path))", "silent")

# ------------------------------------------------------------------ C17
V("verify ignores the previous path", "C17", C, "                    history_relative_path = media_hash.previous_path or history_relative_path\n                    break\n\n            if single_file", "                    break\n\n            if single_file", "R17.3")
V("record indexed under its current path only", "C17", "ascmhl/hashlist.py", "        self.media_hashes_path_map[media_hash.previous_path or media_hash.path] = media_hash\n", "", "R17.1")
V("first entry of the new record compared", "C17", C, "                new_path_hash = new_path_media_hash.find_hash_entry_for_format(not_found_path_hash.hash_format)", "                new_path_hash = new_path_media_hash.hash_entries[0] if new_path_media_hash.hash_entries else None", "R17.4")
V("matched path not removed from the missing set", "C17", C, "                        found_file_paths.add(not_found_path)\n                elif not os.path.isdir(os.path.join(root_path, new_path)):", "                elif not os.path.isdir(os.path.join(root_path, new_path)):", "R17.4")
V("diff without the rename rewrite", ["C17", "C03"], C, """    renamed_files = existing_history.renamed_path_with_previous_path()
    not_found_paths = {p if renamed_files.get(p, None) is None else renamed_files[p] for p in not_found_paths}

    num_failed_verifications = 0
    num_new_files = 0

    ignore_spec = ignore.MHLIgnoreSpec(existing_history.latest_ignore_patterns(), ignore_list, ignore_spec_file)

    for folder_path""", """    num_failed_verifications = 0
    num_new_files = 0

    ignore_spec = ignore.MHLIgnoreSpec(existing_history.latest_ignore_patterns(), ignore_list, ignore_spec_file)

    for folder_path""", "R")

# ------------------------------------------------------------------ C18
V("failed entries flattened (suite-blind)", "C18", C, '                    if hash_entry.action != "failed":\n                        # check if this entry is newer', "                    if True:\n                        # check if this entry is newer", "R18.1")
V("generations flattened newest first", "C18", C, """    for hash_list in existing_history.hash_lists:
        for media_hash in hash_list.media_hashes:
            if not media_hash.is_directory:
                for hash_entry in media_hash.hash_entries:
                    if hash_entry.action""", """    for hash_list in reversed(existing_history.hash_lists):
        for media_hash in hash_list.media_hashes:
            if not media_hash.is_directory:
                for hash_entry in media_hash.hash_entries:
                    if hash_entry.action""", "R18.1")
V("constant action carried over", "C18", C, """                                hash_entry.hash_string,
                                action=hash_entry.action,
                                hash_date=hash_entry.hash_date,
                            )
                        else:""", """                                hash_entry.hash_string,
                                action="original",
                                hash_date=hash_entry.hash_date,
                            )
                        else:""", "R18.2")

# ------------------------------------------------------------------ C19
V("info lists the last five generations (suite-blind)", "C19", C, "    for hash_list in history.hash_lists:\n        if logger.verbose_logging == True:\n            creatorInfo", "    for hash_list in history.hash_lists[-5:]:\n        if logger.verbose_logging == True:\n            creatorInfo", "R19.2")
V("format printed under the digest label", "C19", C, """                        f" {hash_entry.hash_format}: {hash_entry.hash_string} ({hash_entry.action})"
                    )
            # follow""", """                        f" {hash_entry.hash_format}: {hash_entry.hash_format} ({hash_entry.action})"
                    )
            # follow""", "R19.3")
V("failed entries hidden from info", "C19", C, "            for hash_entry in media_hash.hash_entries:\n                if logger.verbose_logging == True:\n                    absolutePath", '            for hash_entry in media_hash.hash_entries:\n                if hash_entry.action == "failed":\n                    continue\n                if logger.verbose_logging == True:\n                    absolutePath', "R19.3")
V("empty history exits 0", "C19", C, """    existing_history = MHLHistory.load_from_path(root_path)

    if len(existing_history.hash_lists) == 0:
        raise errors.NoMHLHistoryException(root_path)

    log_child_histories(existing_history)""", """    existing_history = MHLHistory.load_from_path(root_path)

    log_child_histories(existing_history)""", "R19.1")

# ------------------------------------------------------------------ C20
V("not a daemon (suite-blind)", "C20", UP, "        self.daemon = True\n", "", "R20.1")
V("unbounded join (suite-blind)", "C20", "ascmhl/cli/ascmhl.py", "updater.join(timeout=1)", "updater.join()", "R20.2")
V("30 second join", "C20", "ascmhl/cli/ascmhl_debug.py", "updater.join(timeout=1)", "updater.join(timeout=30)", "R20.2")
V("synchronous fetch in needs_update", "C20", UP, "        if not self.latest_version:\n            return False", "        if not self.latest_version:\n            self._get_latest_version()\n        if not self.latest_version:\n            return False", "R20")
V("notice printed from the group body", "C20", "ascmhl/cli/ascmhl.py", "def mhltool_cli():\n    pass", 'def mhltool_cli():\n    if updater.needs_update:\n        click.secho("update", fg="blue")', "R20.4")
V("exit 1 when outdated", "C20", "ascmhl/cli/ascmhl.py", '        click.secho(f"Please update to the latest ascmhl version using `pip3 install -U ascmhl`.", fg="blue")', '        click.secho(f"Please update to the latest ascmhl version using `pip3 install -U ascmhl`.", fg="blue")\n        raise SystemExit(1)', "R20.4")
V("daemon passed to Thread.__init__ (equivalent)", "C20", UP, "        super().__init__()\n        self.daemon = True", "        super().__init__(daemon=True)", "silent")


# ------------------------------------------------------------------ variants added with the second-round hardening
V("hand-rolled digest cache keyed by path (suite-blind)", "C01", H, """    hasher = new_hasher_for_hash_type(hash_format)
    return hasher.hash_file(filepath)""", """    key = (filepath, hash_format, os.path.getsize(filepath))
    if key not in _digest_cache:
        _digest_cache[key] = new_hasher_for_hash_type(hash_format).hash_file(filepath)
    return _digest_cache[key]


_digest_cache = {}""", "R1.7")
V("chain temporary opened with exclusive create", "C15", CX, 'file = open(temp_file_path, "wb")', 'file = open(temp_file_path, "xb")', "R15.1")
V("manifest temporary opened with exclusive create is harmless (fresh name per run)", "C15", HX, 'file = open(temp_file_path, "wb")', 'file = open(temp_file_path, "xb")', "silent")
V("reader strips digests", "C10", HX, 'entry = MHLHashEntry(tag, element.text, element.attrib.get("action"), hash_date)', 'entry = MHLHashEntry(tag, element.text.strip(), element.attrib.get("action"), hash_date)', "R10.1")
V("latest generation number from the chain", ["C06", "C04"], HI, """        latest_number = 0
        for hash_list in self.hash_lists:""", """        if self.chain is not None and self.chain.generations:
            return self.chain.generations[-1].generation_number
        latest_number = 0
        for hash_list in self.hash_lists:""", "any")
V("comparison helper: structure mismatch alone is a success", "C09", C, """        directory_hash_entry.hash_string == calculated_content_hash_string
        and directory_hash_entry.structure_hash_string == calculated_structure_hash_string
    ):""", """        directory_hash_entry.hash_string == calculated_content_hash_string
    ):""", "R9.6")
V("comparison helper: tuple comparison (equivalent)", "C09", C, """    if (
        directory_hash_entry.hash_string == calculated_content_hash_string
        and directory_hash_entry.structure_hash_string == calculated_structure_hash_string
    ):""", """    if (directory_hash_entry.hash_string, directory_hash_entry.structure_hash_string) == (
        calculated_content_hash_string,
        calculated_structure_hash_string,
    ):""", "silent")
V("discovery skips folders whose absolute path starts with a dot component", "C13", HI, """            if root != history_root and ascmhl_folder_name in directories:""", """            if os.sep + "." in root:
                continue
            if root != history_root and ascmhl_folder_name in directories:""", "R13.5")
V("discovery uses the last component of the walk root (harmless)", "C13", HI, """            if root != history_root and ascmhl_folder_name in directories:""", """            if root.split(os.sep)[-1] == "":
                continue
            if root != history_root and ascmhl_folder_name in directories:""", "silent")

V("loader accepts every name that contains the extension (temporaries parsed)", "C15", HI, """or not filename.endswith(ascmhl_file_extension):""", """or ascmhl_file_extension not in filename:""", "R15.4")
V("loader drops the extension test", "C15", HI, """                if (len(filename) > 2 and filename[:2] == "._") or not filename.endswith(ascmhl_file_extension):
                    continue""", """                if len(filename) > 2 and filename[:2] == "._":
                    continue""", "R15.4")
V("loader extension test as positive guard (equivalent)", ["C15", "C06", "C05"], HI, """                if (len(filename) > 2 and filename[:2] == "._") or not filename.endswith(ascmhl_file_extension):
                    continue""", """                if not filename.endswith(ascmhl_file_extension):
                    continue
                if filename.startswith("._") and len(filename) > 2:
                    continue""", "silent")


# ------------------------------------------------------------------ variants taken from the mechanical mutation scan (tools/mutscan.py): each
# survives the 79 tests, breaks the property, and was silent in every check before the rule named here was added / corrected
V("mutscan: None-guard of the root hash turned into `pass` (verify -dh)", "C09", C, """                if hash_list.process_info.root_media_hash is None:
                    continue
                root_hash_entries""", """                if hash_list.process_info.root_media_hash is None:
                    pass
                root_hash_entries""", "R9.3")
V("mutscan: create -sf does not count a failed seal (single file branch)", "C03", C, """            seal_result = seal_file_path(existing_history, path, hash_format_list, session)
            success = seal_result[hash_format_list[0]].success
            if not success:
                num_failed_verifications += 1""", """            seal_result = seal_file_path(existing_history, path, hash_format_list, session)
            success = seal_result[hash_format_list[0]].success
            if not success:
                pass""", "R3.4")
V("mutscan: diff counts new files with += 0", "C03", C, """                logger.error(f"found new file {relative_path}")
                num_new_files += 1
                continue

    exception = test_for_missing_files(not_found_paths, root_path, ignore_spec)
    if num_failed_verifications > 0:
        exception = errors.VerificationFailedException()
    if not exception""", """                logger.error(f"found new file {relative_path}")
                num_new_files += 0
                continue

    exception = test_for_missing_files(not_found_paths, root_path, ignore_spec)
    if num_failed_verifications > 0:
        exception = errors.VerificationFailedException()
    if not exception""", "R3.4")
V("mutscan: diff needs two new files to fail", "C03", C, "    if not exception and num_new_files > 0:", "    if not exception and num_new_files > 1:", "R3.6")
V("mutscan: verify -pl branch returns without calling its worker", ["C03", "C18"], C, """    if packing_list is not None:
        verify_entire_folder(
            root_path, verbose, single_file, packing_list, ignore_list, ignore_spec_file, calculate_only
        )
        return""", """    if packing_list is not None:
        return""", "R3.9")
V("mutscan: packing-list loader called with swapped arguments", "C18", C, "MHLHistory.load_from_packing_list_path(packing_list_path, root_path)", "MHLHistory.load_from_packing_list_path(root_path, packing_list_path)", "R18.4")
V("mutscan: flatten drops the append for a path that is new", "C18", C, """                        if found_media_hash == None:
                            session.append_file_hash(
                                media_hash.path,
                                media_hash.file_size,
                                media_hash.last_modification_date,
                                hash_entry.hash_format,
                                hash_entry.hash_string,
                                action=hash_entry.action,
                                hash_date=hash_entry.hash_date,
                            )
                        else:""", """                        if found_media_hash == None:
                            pass
                        else:""", "R18.5")
V("mutscan: flatten 'format already there' flag set on a different format", "C18", C, "                                if found_hash_entry.hash_format == hash_entry.hash_format:", "                                if found_hash_entry.hash_format != hash_entry.hash_format:", "R18.5")
V("mutscan: flatten appends when the format is already there", "C18", C, "                            if not hashformat_is_already_there:", "                            if hashformat_is_already_there:", "R18.5")
V("mutscan: hash command passes format and path swapped", "C01", C, "    result = hash_file(file_path, hash_format)", "    result = hash_file(hash_format, file_path)", "R1.9")
V("mutscan: reader never attaches the process info", "C10", HX, """                    elif tag == "processinfo":
                        hash_list.process_info = current_object
                        current_object = None""", """                    elif tag == "processinfo":
                        current_object = None""", "R10.6")
V("mutscan: reader opens an author on every non-author start tag", "C10", HX, """                if tag == "author":
                    current_object.authors.append(MHLAuthor("-"))""", """                if tag != "author":
                    current_object.authors.append(MHLAuthor("-"))""", "R10.6")
V("mutscan: hash date parsed only when the attribute is absent", "C10", HX, "                        if hash_date_string is not None:", "                        if hash_date_string is None:", "R10.6")
V("mutscan: </ignore> does not pop the process info", "C10", HX, """                    elif tag == "ignore":
                        hash_list.process_info.ignore_spec = current_object
                        current_object = object_stack.pop()""", """                    elif tag != "ignore":
                        hash_list.process_info.ignore_spec = current_object
                        current_object = object_stack.pop()""", "R10.6")
V("mutscan: chain reader opens a container on every non-hashlist start tag", "C05", CX, """                if tag == "hashlist":
                    current_object = MHLChainGeneration()""", """                if tag != "hashlist":
                    current_object = MHLChainGeneration()""", "R5.8")
V("mutscan: traversal pattern root defaults inverted", ["C13", "C12"], TR, """    if root is None:
        root = top""", """    if root is not None:
        root = top""", "R13.2")
V("mutscan: session ignores a handed-in action", "C18", G, """        if action != None:
            hash_entry.action = action

        # a file that is handed in twice""", """        if action != None:
            pass

        # a file that is handed in twice""", "R18.2")

# ---- second mutation scan (operator set 2: Python-semantics slips), survivors of the suite that were silent before the rule named here
V("mutscan2: verify -dh -h FORMAT puts nothing on the list of formats", "C09", C, """    else:
        hash_formats.append(hash_format)
        logger.verbose(f"hash format: {hash_format}")""", """    else:
        pass""", "R9.7")
V("mutscan2: root comparison looks at the first generation only (verify -dh)", "C09", C, """        if folder_path == root_path:
            for hash_list in existing_history.hash_lists:""", """        if folder_path == root_path:
            for hash_list in list(existing_history.hash_lists)[:1]:""", "R9.8")
V("mutscan2: root comparison looks at the first root entry only (verify -dh)", "C09", C, "                    for root_hash_entry in root_hash_entries:", "                    for root_hash_entry in list(root_hash_entries)[:1]:", "R9.8")
V("mutscan2: the `original` lookup looks at the first entry of a record only", "C04", HI, """            for hash_entry in media_hash.hash_entries:
                if hash_entry.action == "original":""", """            for hash_entry in list(media_hash.hash_entries)[:1]:
                if hash_entry.action == "original":""", "R4.2")
V("mutscan2: info -sf lists the first named file only", "C19", C, """    for path in single_file:
        relative_path = existing_history.get_relative_file_path(os.path.abspath(path))
        logger.info(f"{relative_path}:")""", """    for path in list(single_file)[:1]:
        relative_path = existing_history.get_relative_file_path(os.path.abspath(path))
        logger.info(f"{relative_path}:")""", "R19.3")
V("mutscan2: diff does not count files without an original entry as new", "C03", C, """            if original_hash_entry is None:
                logger.error(f"found new file {relative_path}")
                num_new_files += 1
                continue

    exception = test_for_missing_files(not_found_paths, root_path, ignore_spec)
    if num_failed_verifications > 0:""", """            if original_hash_entry is None:
                pass

    exception = test_for_missing_files(not_found_paths, root_path, ignore_spec)
    if num_failed_verifications > 0:""", "R3.12")
V("mutscan2: verify -pl branch emptied (falls through to the plain verify)", "C18", C, """    if packing_list is not None:
        verify_entire_folder(
            root_path, verbose, single_file, packing_list, ignore_list, ignore_spec_file, calculate_only
        )
        return""", """    if packing_list is not None:
        pass""", "R18.4")
V("mutscan2: the previous-path search of diff looks at the first generation only", "C17", C, """            for hash_list in history.hash_lists:
                for media_hash in hash_list.media_hashes:
                    if media_hash.path != history_relative_path:
                        continue
                    history_relative_path = media_hash.previous_path or history_relative_path
                    break

            # check if there is an existing hash in the other generations and verify
            original_hash_entry = history.find_original_hash_entry_for_path(history_relative_path)""", """            for hash_list in list(history.hash_lists)[:1]:
                for media_hash in hash_list.media_hashes:
                    if media_hash.path != history_relative_path:
                        continue
                    history_relative_path = media_hash.previous_path or history_relative_path
                    break

            # check if there is an existing hash in the other generations and verify
            original_hash_entry = history.find_original_hash_entry_for_path(history_relative_path)""", "R17.3")

V("hand: verify binds a generator of the files' children once and consumes it per folder", ["C03"], C, """    found_single_file = False

    for folder_path, children in post_order_lexicographic(root_path, ignore_spec.get_path_spec()):
        for item_name, is_dir in children:
            file_path = os.path.join(folder_path, item_name)
            not_found_paths.discard(file_path)""", """    found_single_file = False
    generations = iter(existing_history.hash_lists)

    for folder_path, children in post_order_lexicographic(root_path, ignore_spec.get_path_spec()):
        for item_name, is_dir in children:
            for _generation in generations:
                pass
            file_path = os.path.join(folder_path, item_name)
            not_found_paths.discard(file_path)""", "R3.13")
V("fix 276a691 undone: a new directory is re-hashed as a file in the rename matching", "C17", C, "                elif not os.path.isdir(os.path.join(root_path, new_path)):\n                    old_hash_format_for_new_path", "                else:\n                    old_hash_format_for_new_path", "R17.9")
V("fix 11ce657 undone (verify): previous path searched in the root history's generations", "C17", C, """            for hash_list in history.hash_lists:
                for media_hash in hash_list.media_hashes:
                    if media_hash.path != history_relative_path:
                        continue
                    history_relative_path = media_hash.previous_path or history_relative_path
                    break

            if single_file""", """            for hash_list in existing_history.hash_lists:
                for media_hash in hash_list.media_hashes:
                    if media_hash.path != history_relative_path:
                        continue
                    history_relative_path = media_hash.previous_path or history_relative_path
                    break

            if single_file""", "R17.3")
V("directory test of the rename matching with the wrong polarity", "C17", C, "                elif not os.path.isdir(os.path.join(root_path, new_path)):", "                elif os.path.isdir(os.path.join(root_path, new_path)):", "R17.9")
V("fix dc3bf81 undone: first hash entry of a missing path dereferenced without None test", "C17", C, """                if not_found_path_hash is None:
                    # a record without any hash (a folder recorded without directory hashes) cannot be matched
                    continue

""", "\n", "R17.11")
V("fix 534564c undone: an empty <pattern> is read back as None", ["C12", "C10"], HX, 'existing_ignore_patterns.append(element.text or "")', "existing_ignore_patterns.append(element.text)", "R12.6")
V("fix 82facee undone: a removed nested history is reported missing although the patterns ignore it", "C12", C, """                nested_root = os.path.dirname(referenced_asc_folder)
                # a nested history that the ignore patterns exclude is not missing
                if not ignore_spec.get_path_spec().match_file(os.path.relpath(nested_root, root_path)):
                    missing_asc_mhl_folder.add(nested_root)
""", """                missing_asc_mhl_folder.add(os.path.dirname(referenced_asc_folder))
""", "R12.15")
V("fix 3574d6b undone: no packing list for a history without file records", "C18", C, """    # the packing list is written even if the history holds no file record at all (only empty folders)
    packing_list = session.new_hash_lists[collection_history]

""", "", "R18.10")
V("fix 4239593 undone: info -sf looks a file of a nested history up in the root history", "C19", C, """        history, history_relative_path = existing_history.find_history_for_path(relative_path)
        for hash_list in history.hash_lists:
            media_hash = hash_list.find_media_hash_for_path(history_relative_path)
""", """        history, history_relative_path = existing_history, relative_path
        for hash_list in history.hash_lists:
            media_hash = hash_list.find_media_hash_for_path(history_relative_path)
""", "R19.3")
V("fix d171ab3 undone: the previous name is listed once per hash entry", "C19", C, """                    )
            # follow a renamed file to its former name once per generation, not once per hash entry of the record
            if logger.verbose_logging == True and media_hash.previous_path and history_relative_path == media_hash.path:
                logger.info(" In previous generations the file was named: {}\\n\\n".format(media_hash.previous_path))
                info_for_single_file(
                    root_path, verbose, [os.path.join(history.get_root_path(), media_hash.previous_path)]
                )
""", """                    )
                if logger.verbose_logging == True and media_hash.previous_path and history_relative_path == media_hash.path:
                    logger.info(" In previous generations the file was named: {}\\n\\n".format(media_hash.previous_path))
                    info_for_single_file(
                        root_path, verbose, [os.path.join(history.get_root_path(), media_hash.previous_path)]
                    )
""", "R19.9")
