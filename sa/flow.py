"""Reaching definitions over the CFG and value provenance ("origins") as small term trees.

Term forms (tuples):
  ("const", value)
  ("param", func_qual, name)
  ("call", target, [arg terms], {kw: term}, call_ast)        target = first resolved callee name
  ("attr", base_term, name)
  ("elem", term)                      loop variable / subscript / unpacked position of term
  ("op", opname, [terms])             BinOp / BoolOp / Compare / IfExp / f-string …
  ("global", qual)
  ("self", class_qual)
  ("unknown", text)
A query returns a *list* of alternative terms (one per reaching definition).
"""
from __future__ import annotations

import ast
from typing import Dict, List, Optional, Set, Tuple

from .cfg import CFG, Node, cfg_of
from .model import AnalysisError, Func, Program, norm, parent, walk_no_nested


def _target_names(t) -> List[Tuple[str, tuple]]:
    """names bound by an assignment target, with the unpack path"""
    out = []
    if isinstance(t, ast.Name):
        out.append((t.id, ()))
    elif isinstance(t, (ast.Tuple, ast.List)):
        for i, e in enumerate(t.elts):
            for n, pth in _target_names(e):
                out.append((n, (i,) + pth))
    elif isinstance(t, ast.Starred):
        out += _target_names(t.value)
    return out


class Defs:
    """reaching definitions for one function. A definition = (name, cfg node id, kind, value_ast, unpack path)"""

    def __init__(self, func: Func):
        self.func = func
        self.cfg: CFG = cfg_of(func)
        self.defs: List[tuple] = []  # (name, node_id, kind, value, path)
        self.gen: Dict[int, List[int]] = {}
        self._collect()
        self._solve()

    def _add(self, node: Node, name, kind, value, path=()):
        self.defs.append((name, node.id, kind, value, path))
        self.gen.setdefault(node.id, []).append(len(self.defs) - 1)

    def _collect(self):
        f = self.func
        g = self.cfg
        for p in f.params + f.kwonly + [x for x in (f.vararg, f.kwarg) if x]:
            self._add(g.entry, p, "param", None)
        for n in g.nodes:
            a = n.ast
            if n.kind == "stmt":
                if isinstance(a, ast.Assign):
                    for t in a.targets:
                        for name, pth in _target_names(t):
                            self._add(n, name, "assign", a.value, pth)
                elif isinstance(a, ast.AnnAssign) and a.value is not None:
                    for name, pth in _target_names(a.target):
                        self._add(n, name, "assign", a.value, pth)
                elif isinstance(a, ast.AugAssign):
                    for name, pth in _target_names(a.target):
                        self._add(n, name, "aug", a, pth)
                elif isinstance(a, (ast.FunctionDef, ast.AsyncFunctionDef, ast.ClassDef)):
                    self._add(n, a.name, "def", a)
                elif isinstance(a, (ast.Import, ast.ImportFrom)):
                    for al in a.names:
                        self._add(n, (al.asname or al.name).split(".")[0], "import", a)
                elif isinstance(a, ast.ExceptHandler) and a.name:
                    self._add(n, a.name, "except", a)
            elif n.kind == "loop" and isinstance(a, ast.For):
                for name, pth in _target_names(a.target):
                    self._add(n, name, "for", a.iter, pth)
            elif n.kind == "with":
                for it in a.items:
                    if it.optional_vars is not None:
                        for name, pth in _target_names(it.optional_vars):
                            self._add(n, name, "with", it.context_expr, pth)
            # walrus anywhere in the node's expression
            if a is not None and n.kind in ("stmt", "test"):
                for x in ([a] if n.kind == "test" else [a]):
                    for y in ast.walk(x):
                        if isinstance(y, ast.NamedExpr) and isinstance(y.target, ast.Name):
                            if isinstance(a, (ast.FunctionDef, ast.ClassDef)):
                                break
                            self._add(n, y.target.id, "assign", y.value)

    def _solve(self):
        g = self.cfg
        by_name: Dict[str, Set[int]] = {}
        for i, d in enumerate(self.defs):
            by_name.setdefault(d[0], set()).add(i)
        IN: Dict[int, Set[int]] = {n.id: set() for n in g.nodes}
        OUT: Dict[int, Set[int]] = {n.id: set() for n in g.nodes}
        work = list(g.nodes)
        while work:
            n = work.pop(0)
            inn = set()
            for p, _ in n.pred:
                inn |= OUT[p.id]
            IN[n.id] = inn
            out = set(inn)
            for di in self.gen.get(n.id, []):
                name = self.defs[di][0]
                kind = self.defs[di][2]
                if kind != "aug":
                    out -= by_name[name]
                else:
                    out -= by_name[name]
                out.add(di)
            # several gens of same name in one node (tuple targets) keep all
            for di in self.gen.get(n.id, []):
                out.add(di)
            if out != OUT[n.id]:
                OUT[n.id] = out
                for m, _ in n.succ:
                    if m not in work:
                        work.append(m)
        self.IN, self.OUT = IN, OUT

    def reaching(self, name, node: Node) -> List[tuple]:
        """definitions of `name` reaching the *use* inside cfg node `node`"""
        return [self.defs[i] + (i,) for i in sorted(self.IN[node.id]) if self.defs[i][0] == name]


_defs_cache: Dict[int, Defs] = {}


def defs_of(func: Func) -> Defs:
    k = id(func.node)
    if k not in _defs_cache:
        _defs_cache[k] = Defs(func)
    return _defs_cache[k]


class Prov:
    def __init__(self, program: Program):
        self.p = program

    # ------------------------------------------------------------------
    def origins(self, e, func: Func, depth=10, _stack=None) -> List[tuple]:
        """alternative provenance terms of expression `e` evaluated where it stands in `func`"""
        _stack = _stack or set()
        try:
            node = cfg_of(func).node_for(e)
        except AnalysisError:
            node = None
        return self._orig(e, func, node, depth, _stack)

    def _orig(self, e, func, node, depth, stack) -> List[tuple]:
        p = self.p
        if e is None:
            return [("const", None)]
        if isinstance(e, ast.Constant):
            return [("const", e.value)]
        if depth <= 0:
            cv = p.fold(e, func)
            if cv is not None:
                return [("const", cv)]
            return [("unknown", norm(e))]
        v = p.fold(e, func) if not isinstance(e, (ast.Name,)) else None
        if v is not None and isinstance(e, (ast.BinOp, ast.JoinedStr)):
            return [("const", v)]
        if isinstance(e, ast.Name):
            return self._name(e, func, node, depth, stack)
        if isinstance(e, ast.Attribute):
            q = p.resolve_name_expr(e, func.module)
            if q and (q in p.funcs or q in p.classes or q in p.modules):
                return [("global", q)]
            if q and not (isinstance(e.value, ast.Name) and e.value.id in p.env(func)):
                cv = p.fold(e, func)
                if cv is not None:
                    return [("const", cv)]
                if q.split(".")[0] not in ("ascmhl",):
                    return [("global", q)]
            local = self._local_attr_stores(e, func, node, depth, stack)
            if local is not None:
                return local
            bases = self._orig(e.value, func, node, depth - 1, stack)
            bt = p.etype(e.value, func)
            cq = bt[1] if bt and bt[0] in ("C", "Cls") else None
            return [("attr", b, e.attr, cq) for b in bases]
        if isinstance(e, ast.Call):
            tg = p.resolve_call(e, func)
            name = tg[0] if tg else "unk:?"
            if name.startswith("class:"):
                name = name
            args = [self._first(self._orig(a, func, node, depth - 1, stack)) for a in e.args]
            kws = {k.arg: self._first(self._orig(k.value, func, node, depth - 1, stack)) for k in e.keywords if k.arg}
            recv = None
            if isinstance(e.func, ast.Attribute):
                recv = self._first(self._orig(e.func.value, func, node, depth - 1, stack))
            return [("call", name, args, kws, e, recv)]
        if isinstance(e, ast.Subscript):
            bases = self._orig(e.value, func, node, depth - 1, stack)
            if isinstance(e.slice, ast.Slice):
                return [("op", "slice", [b]) for b in bases]
            return [("elem", b, self._first(self._orig(e.slice, func, node, depth - 1, stack))) for b in bases]
        if isinstance(e, ast.BinOp):
            return [("op", type(e.op).__name__, [self._first(self._orig(e.left, func, node, depth - 1, stack)), self._first(self._orig(e.right, func, node, depth - 1, stack))])]
        if isinstance(e, ast.BoolOp):
            out = []
            for v2 in e.values:
                out += self._orig(v2, func, node, depth - 1, stack)
            return out
        if isinstance(e, ast.IfExp):
            return self._orig(e.body, func, node, depth - 1, stack) + self._orig(e.orelse, func, node, depth - 1, stack)
        if isinstance(e, ast.JoinedStr):
            parts = []
            for v2 in e.values:
                if isinstance(v2, ast.FormattedValue):
                    parts.append(self._first(self._orig(v2.value, func, node, depth - 1, stack)))
                else:
                    parts.append(("const", v2.value))
            return [("op", "fstring", parts)]
        if isinstance(e, (ast.Tuple, ast.List, ast.Set)):
            return [("op", "tuple", [self._first(self._orig(x, func, node, depth - 1, stack)) for x in e.elts])]
        if isinstance(e, (ast.ListComp, ast.SetComp, ast.GeneratorExp)):
            srcs = [self._first(self._orig(g.iter, func, node, depth - 1, stack)) for g in e.generators]
            # last operand: provenance of the element expression (its loop variables resolve to elements of the sources)
            try:
                elt = self._first(self._orig(e.elt, func, node, depth - 1, stack)) if depth > 1 else ("unknown", norm(e.elt))
            except AnalysisError:
                elt = ("unknown", norm(e.elt))
            return [("op", "comp", srcs + [elt])]
        if isinstance(e, ast.DictComp):
            srcs = [self._first(self._orig(g.iter, func, node, depth - 1, stack)) for g in e.generators]
            return [("op", "comp", srcs)]
        if isinstance(e, ast.Dict):
            return [("op", "dict", [self._first(self._orig(x, func, node, depth - 1, stack)) for x in e.values if x is not None])]
        if isinstance(e, ast.UnaryOp):
            return [("op", type(e.op).__name__, [self._first(self._orig(e.operand, func, node, depth - 1, stack))])]
        if isinstance(e, ast.Compare):
            return [("op", "cmp", [self._first(self._orig(x, func, node, depth - 1, stack)) for x in [e.left] + e.comparators])]
        if isinstance(e, ast.NamedExpr):
            return self._orig(e.value, func, node, depth - 1, stack)
        if isinstance(e, ast.Lambda):
            return [("unknown", "lambda")]
        if isinstance(e, ast.Starred):
            return self._orig(e.value, func, node, depth - 1, stack)
        return [("unknown", norm(e))]

    def _local_attr_stores(self, e: ast.Attribute, func, node, depth, stack):
        """`x.a` where the same function stores `x.a = v` on a path to this use: the origins of those v.
        When a store dominates the use only stores are returned, otherwise None (caller falls back to the attr term,
        which the field-based expansion resolves)."""
        if not isinstance(e.value, ast.Name) or node is None or not isinstance(e.ctx, ast.Load):
            return None
        base = e.value.id
        g = cfg_of(func)
        stores = []
        for n in walk_no_nested(func.node):
            if isinstance(n, ast.Assign):
                for t in n.targets:
                    if isinstance(t, ast.Attribute) and t.attr == e.attr and isinstance(t.value, ast.Name) and t.value.id == base:
                        stores.append((n, n.value))
        if not stores:
            return None
        key = (func.qual, "attr", base, e.attr, id(e))
        if key in stack:
            return None
        live = []
        dominated = False
        for st, v in stores:
            try:
                sn = g.node_for(st)
            except AnalysisError:
                continue
            if sn is node:
                continue
            if node.id in g.reachable_from([m for m, _ in sn.succ]):
                live.append((sn, v))
                if g.dominates(sn, node):
                    dominated = True
        if not live or not dominated:
            return None
        # keep only stores not killed by a later dominating store on every path: approximate by
        # dropping stores that are themselves dominated by another live store which dominates the use
        keep = []
        for sn, v in live:
            killed = any(o is not sn and g.dominates(sn, o) and g.dominates(o, node) for o, _ in live)
            if not killed:
                keep.append((sn, v))
        out = []
        for sn, v in keep:
            out += self._orig(v, func, sn, depth - 1, stack | {key})
        return out

    @staticmethod
    def _first(alts):
        if len(alts) == 1:
            return alts[0]
        return ("alt", alts)

    def _name(self, e: ast.Name, func, node, depth, stack) -> List[tuple]:
        p = self.p
        name = e.id
        # comprehension-local variable?
        x = parent(e)
        prev = e
        while x is not None and x is not func.node:
            if isinstance(x, (ast.ListComp, ast.SetComp, ast.GeneratorExp, ast.DictComp)):
                for g in x.generators:
                    for nm, pth in _target_names(g.target):
                        if nm == name:
                            src = self._orig(g.iter, func, node, depth - 1, stack)
                            return [self._unpack(("elem", s, None), pth) for s in src]
            if isinstance(x, ast.Lambda) and name in [a.arg for a in x.args.args]:
                return [("unknown", "lambda-arg " + name)]
            prev, x = x, parent(x)
        f = func
        cur_node = node
        while f is not None:
            d = defs_of(f)
            if cur_node is None:
                cands = [dd + (i,) for i, dd in enumerate(d.defs) if dd[0] == name]
            else:
                cands = d.reaching(name, cur_node)
                if not cands:
                    # the use may sit in the same node that defines (e.g. x = f(x)); fall back to all defs if none reach
                    cands = []
            if cands:
                out = []
                for (nm, nid, kind, value, pth, idx) in cands:
                    key = (f.qual, idx)
                    if key in stack:
                        out.append(("unknown", "cyclic " + name))
                        continue
                    if kind == "param":
                        if f.cls and not f.is_static and f.params and name == f.params[0] and f.outer is None:
                            out.append(("self", f.cls))
                        else:
                            out.append(("param", f.qual, name))
                    elif kind == "assign":
                        dn = d.cfg.nodes[nid]
                        if not pth and self._is_empty_container(value):
                            out.append(self._collect(name, value, f, depth, stack | {key}))
                            continue
                        alts = self._orig(value, f, dn, depth - 1, stack | {key})
                        out += [self._unpack(a, pth) for a in alts]
                    elif kind == "aug":
                        dn = d.cfg.nodes[nid]
                        out.append(("op", "aug" + type(value.op).__name__, [self._first(self._orig(value.value, f, dn, depth - 1, stack | {key}))]))
                    elif kind == "for":
                        dn = d.cfg.nodes[nid]
                        alts = self._orig(value, f, dn, depth - 1, stack | {key})
                        out += [self._unpack(("elem", a, None), pth) for a in alts]
                    elif kind == "with":
                        dn = d.cfg.nodes[nid]
                        out += self._orig(value, f, dn, depth - 1, stack | {key})
                    elif kind == "def":
                        out.append(("global", f.qual + "." + name))
                    else:
                        out.append(("unknown", kind + " " + name))
                return out
            # not defined in this function: enclosing function (closure) or module
            if f.outer is not None:
                try:
                    cur_node = cfg_of(f.outer).node_for(f.node)
                except AnalysisError:
                    cur_node = None
            f = f.outer
        cv = p.module_const(func.module, name)
        if cv is not None:
            return [("const", cv)]
        q = p.resolve_name_expr(e, func.module)
        if q:
            return [("global", q)]
        for st in func.module.tree.body:
            if isinstance(st, ast.Assign) and any(isinstance(t, ast.Name) and t.id == name for t in st.targets):
                return [("global", func.module.name + "." + name)]
        return [("global", "builtins." + name)]

    @staticmethod
    def _is_empty_container(v):
        if isinstance(v, (ast.List, ast.Set, ast.Tuple)) and not v.elts:
            return True
        if isinstance(v, ast.Dict) and not v.keys:
            return True
        if isinstance(v, ast.Call) and isinstance(v.func, ast.Name) and v.func.id in ("list", "set", "dict") and not v.args and not v.keywords:
            return True
        return False

    def _collect(self, name, value, f, depth, stack):
        """a local container created empty: its contents are whatever the function stores into it
        (flow-insensitive over the function body): x.append(v) / x.add(v) / x.extend(v) / x.update(v) / x[k] = v"""
        items = []
        for n in walk_no_nested(f.node):
            if isinstance(n, ast.Call) and isinstance(n.func, ast.Attribute) and isinstance(n.func.value, ast.Name) and n.func.value.id == name:
                if n.func.attr in ("append", "add") and n.args:
                    items.append(("elemof", self._first(self._orig(n.args[0], f, self._node(f, n), depth - 1, stack))))
                elif n.func.attr in ("extend", "update") and n.args:
                    items.append(("allof", self._first(self._orig(n.args[0], f, self._node(f, n), depth - 1, stack))))
                elif n.func.attr == "insert" and len(n.args) > 1:
                    items.append(("elemof", self._first(self._orig(n.args[1], f, self._node(f, n), depth - 1, stack))))
            elif isinstance(n, ast.Assign):
                for t in n.targets:
                    if isinstance(t, ast.Subscript) and isinstance(t.value, ast.Name) and t.value.id == name:
                        items.append(("elemof", self._first(self._orig(n.value, f, self._node(f, n), depth - 1, stack))))
        kind = "dict" if isinstance(value, ast.Dict) or (isinstance(value, ast.Call) and value.func.id == "dict") else ("set" if (isinstance(value, ast.Call) and value.func.id == "set") or isinstance(value, ast.Set) else "list")
        return ("op", "collect-" + kind, [("op", k, [t]) for k, t in items])

    def _node(self, f, a):
        try:
            return cfg_of(f).node_for(a)
        except AnalysisError:
            return None

    @staticmethod
    def _unpack(term, pth):
        for i in pth:
            term = ("elem", term, ("const", i))
        return term

    # ------------------------------------------------------------------ interprocedural
    def field_stores(self, cq, attr, within=None):
        """all (function, value expression) pairs that store into <object of class cq or a base/subclass>.attr"""
        p = self.p
        fam = set(p.mro(cq)) | set(p.subclasses(cq))
        if not hasattr(self, "_stores"):
            self._stores = {}
            for fq, f in p.funcs.items():
                for n in walk_no_nested(f.node):
                    tgts = []
                    if isinstance(n, ast.Assign):
                        tgts = [(t, n.value) for t in n.targets]
                    elif isinstance(n, ast.AnnAssign) and n.value is not None:
                        tgts = [(n.target, n.value)]
                    for t, v in tgts:
                        if isinstance(t, ast.Attribute):
                            bt = p.etype(t.value, f)
                            if bt and bt[0] in ("C", "Cls"):
                                self._stores.setdefault((bt[1], t.attr), []).append((f, v))
                            else:
                                self._stores.setdefault((None, t.attr), []).append((f, v))
        out = []
        for (c, a), lst in self._stores.items():
            if a == attr and (c in fam or c is None):
                out += [(f, v) for f, v in lst if within is None or f.qual in within]
        return out

    def resolve(self, term, depth=4, within=None):
        """expand parameters through all call sites and object fields through all stores (field-based),
        optionally only considering functions in `within` (e.g. those reachable from one command)."""
        return self.expand_params(term, depth, fields=True, within=within)

    def expand_params(self, term, depth=3, _seen=None, fields=False, within=None):
        """replace ("param", f, name) leaves by the alternatives of the argument origins at all call sites of f.
        returns a term where params are replaced by ("alt", [...]) of call-site origins; cycles cut."""
        _seen = _seen or set()
        p = self.p

        def rec(t, d, seen):
            if not isinstance(t, tuple):
                return t
            if t[0] == "param" and d > 0:
                fq, name = t[1], t[2]
                if (fq, name) in seen:
                    return t
                f = p.funcs.get(fq)
                sites = p.callers.get(fq, [])
                if f is None or not sites:
                    return t
                alts = []
                for caller, call in sites:
                    if within is not None and caller not in within:
                        continue
                    cf = p.funcs[caller]
                    b = p.bind_args(f, call)
                    if name not in b:
                        continue
                    arg = b[name]
                    if arg is None:
                        continue
                    for o in self.origins(arg, cf) if self._is_in(arg, cf) else self._orig(arg, f, None, 4, set()):
                        alts.append(rec(o, d - 1, seen | {(fq, name)}))
                if not alts:
                    return t
                return ("alt", alts) if len(alts) > 1 else alts[0]
            if t[0] == "call":
                return ("call", t[1], [rec(a, d, seen) for a in t[2]], {k: rec(v, d, seen) for k, v in t[3].items()}, t[4], rec(t[5], d, seen) if t[5] is not None else None)
            if t[0] == "attr":
                cq = t[3] if len(t) > 3 else None
                if cq and d > 0 and fields and ("F", cq, t[2]) not in seen:
                    stores = self.field_stores(cq, t[2], within)
                    alts = []
                    for sf, val in stores:
                        for o in self.origins(val, sf):
                            alts.append(rec(o, d - 1, seen | {("F", cq, t[2])}))
                    if alts:
                        return ("alt", alts) if len(alts) > 1 else alts[0]
                return ("attr", rec(t[1], d, seen), t[2], cq)
            if t[0] == "elem":
                return ("elem", rec(t[1], d, seen), t[2])
            if t[0] == "op":
                return ("op", t[1], [rec(a, d, seen) for a in t[2]])
            if t[0] == "alt":
                return ("alt", [rec(a, d, seen) for a in t[1]])
            return t

        return rec(term, depth, _seen)

    def full(self, term, within=None, rounds=2, depth=5, inline_depth=3):
        """resolve parameters/fields, inline package calls, and resolve again what inlining exposed"""
        t = term
        for _ in range(rounds):
            t = self.resolve(t, depth=depth, within=within)
            t = self.inline(t, depth=inline_depth)
        return self.resolve(t, depth=depth, within=within)

    def return_terms(self, f: Func, depth=8) -> List[tuple]:
        out = []
        for n in walk_no_nested(f.node):
            if isinstance(n, ast.Return) and n.value is not None:
                out += self.origins(n.value, f, depth)
            elif isinstance(n, ast.Yield) and n.value is not None:
                out += [("op", "yield", [o]) for o in self.origins(n.value, f, depth)]
        return out

    def inline(self, term, depth=3, _seen=None, calls=True):
        """replace calls of package functions by the provenance of what they return, with parameters bound to the
        actual argument terms and `self` to the receiver term (bounded depth, cycles cut). Calls that resolve to
        several implementations or to none are left as they are."""
        p = self.p
        _seen = _seen or frozenset()

        def subst(t, binding, recv):
            if not isinstance(t, tuple):
                return t
            k = t[0]
            if k == "param" and (t[1], t[2]) in binding:
                return binding[(t[1], t[2])]
            if k == "self" and recv is not None:
                return recv
            if k == "call":
                return ("call", t[1], [subst(a, binding, recv) for a in t[2]], {kk: subst(v, binding, recv) for kk, v in t[3].items()}, t[4], subst(t[5], binding, recv) if t[5] is not None else None)
            if k == "attr":
                return ("attr", subst(t[1], binding, recv), t[2], t[3] if len(t) > 3 else None)
            if k == "elem":
                return ("elem", subst(t[1], binding, recv), subst(t[2], binding, recv) if t[2] is not None else None)
            if k == "op":
                return ("op", t[1], [subst(a, binding, recv) for a in t[2]])
            if k == "alt":
                return ("alt", [subst(a, binding, recv) for a in t[1]])
            return t

        def rec(t, d, seen):
            if not isinstance(t, tuple):
                return t
            k = t[0]
            if k == "call":
                args = [rec(a, d, seen) for a in t[2]]
                kws = {kk: rec(v, d, seen) for kk, v in t[3].items()}
                recv = rec(t[5], d, seen) if t[5] is not None else None
                fq = t[1]
                if calls and fq in p.funcs and d > 0 and fq not in seen:
                    call = t[4]
                    cf = p.func_of_node.get(id(call))
                    tg = p.resolve_call(call, cf) if cf is not None else [fq]
                    internal = [x for x in tg if x in p.funcs]
                    if len(internal) == 1:
                        f = p.funcs[fq]
                        params = list(f.params)
                        if f.cls and not f.is_static and f.outer is None and params:
                            params = params[1:]
                        binding = {}
                        for pn, a in zip(params, args):
                            binding[(fq, pn)] = a
                        for kk, v in kws.items():
                            binding[(fq, kk)] = v
                        for pn, dflt in f.param_defaults().items():
                            if (fq, pn) not in binding:
                                binding[(fq, pn)] = self._first(self._orig(dflt, f, None, 3, set()))
                        rets = self.return_terms(f)
                        if rets:
                            outs = [rec(subst(r, binding, recv), d - 1, seen | {fq}) for r in rets]
                            return ("alt", outs) if len(outs) > 1 else outs[0]
                return ("call", fq, args, kws, t[4], recv)
            if k == "attr":
                b = rec(t[1], d, seen)
                # field of a freshly constructed object: C(args).f  where C.__init__ does `self.f = <param>`
                picks = []
                ok = True
                for a in (b[1] if b[0] == "alt" else [b]):
                    v = self._ctor_field(a, t[2], d, seen, rec, subst)
                    if v is None:
                        ok = False
                        break
                    picks.append(v)
                if ok and picks:
                    return ("alt", picks) if len(picks) > 1 else picks[0]
                return ("attr", b, t[2], t[3] if len(t) > 3 else None)
            if k == "elem":
                b = rec(t[1], d, seen)
                # element of a literal tuple with a constant index
                if t[2] is not None and t[2][0] == "const" and isinstance(t[2][1], int):
                    picks = []
                    ok = True
                    for a in (b[1] if b[0] == "alt" else [b]):
                        if a[0] == "op" and a[1] == "tuple" and 0 <= t[2][1] < len(a[2]):
                            picks.append(a[2][t[2][1]])
                        else:
                            ok = False
                    if ok and picks:
                        return ("alt", picks) if len(picks) > 1 else picks[0]
                return ("elem", b, t[2])
            if k == "op":
                return ("op", t[1], [rec(a, d, seen) for a in t[2]])
            if k == "alt":
                return ("alt", [rec(a, d, seen) for a in t[1]])
            return t

        return rec(term, depth, _seen)

    def _ctor_field(self, a, field, d, seen, rec, subst):
        p = self.p
        if not (isinstance(a, tuple) and a[0] == "call" and a[1].startswith("class:")):
            return None
        cq = a[1][6:]
        init = p.find_method(cq, "__init__")
        if not init:
            return None
        f = p.funcs[init]
        stores = [n for n in walk_no_nested(f.node) if isinstance(n, ast.Assign) and any(isinstance(t, ast.Attribute) and t.attr == field and isinstance(t.value, ast.Name) and t.value.id == f.params[0] for t in n.targets)]
        if len(stores) != 1:
            return None
        # other methods may overwrite the field later; only accept when no other store exists in the class family
        others = [1 for sf, v in self.field_stores(cq, field) if sf.qual != init]
        if others:
            return None
        binding = {}
        for pn, arg in zip(f.params[1:], a[2]):
            binding[(init, pn)] = arg
        for kk, v in a[3].items():
            binding[(init, kk)] = v
        for pn, dflt in f.param_defaults().items():
            if (init, pn) not in binding:
                binding[(init, pn)] = self._first(self._orig(dflt, f, None, 4, set()))
        val = self._first(self.origins(stores[0].value, f))
        return rec(subst(val, binding, None), d - 1 if d > 0 else 0, seen)

    def _is_in(self, node, func):
        x = node
        while x is not None:
            if x is func.node:
                return True
            x = parent(x)
        return False


# ---------------------------------------------------------------------- term utilities
def substitute(t, binding, recv=None):
    """replace ("param", f, name) leaves per binding {(f, name): term} and ("self", C) by recv"""
    if not isinstance(t, tuple):
        return t
    k = t[0]
    if k == "param" and (t[1], t[2]) in binding:
        return binding[(t[1], t[2])]
    if k == "self" and recv is not None:
        return recv
    if k == "call":
        return ("call", t[1], [substitute(a, binding, recv) for a in t[2]], {kk: substitute(v, binding, recv) for kk, v in t[3].items()}, t[4], substitute(t[5], binding, recv) if t[5] is not None else None)
    if k == "attr":
        return ("attr", substitute(t[1], binding, recv), t[2], t[3] if len(t) > 3 else None)
    if k == "elem":
        return ("elem", substitute(t[1], binding, recv), substitute(t[2], binding, recv) if t[2] is not None else None)
    if k == "op":
        return ("op", t[1], [substitute(a, binding, recv) for a in t[2]])
    if k == "alt":
        return ("alt", [substitute(a, binding, recv) for a in t[1]])
    return t


def subterms(t):
    if not isinstance(t, tuple):
        return
    yield t
    k = t[0]
    if k == "call":
        for a in t[2]:
            yield from subterms(a)
        for a in t[3].values():
            yield from subterms(a)
        if t[5] is not None:
            yield from subterms(t[5])
    elif k in ("attr", "elem"):
        yield from subterms(t[1])
        if k == "elem" and len(t) > 2 and t[2] is not None:
            yield from subterms(t[2])
    elif k == "op":
        for a in t[2]:
            yield from subterms(a)
    elif k == "alt":
        for a in t[1]:
            yield from subterms(a)


def find_calls(t, name_suffix):
    return [s for s in subterms(t) if s[0] == "call" and (s[1].endswith(name_suffix))]


def leaves(t):
    return [s for s in subterms(t) if s[0] in ("const", "param", "global", "unknown", "self")]


def sig(t, d=4) -> str:
    """depth-limited rendering used to compare two provenance terms for 'same origin' independent of where the
    depth bound cut them off"""
    if not isinstance(t, tuple):
        return repr(t)
    if d <= 0:
        return "~"
    k = t[0]
    if k == "const":
        return repr(t[1])
    if k == "param":
        return f"param:{t[1]}.{t[2]}"
    if k == "call":
        return f"{t[1]}({','.join(sig(x, d - 1) for x in t[2])};{','.join(k2 + '=' + sig(v, d - 1) for k2, v in sorted(t[3].items()))};{sig(t[5], d - 1) if t[5] is not None else ''})"
    if k == "attr":
        return f"{sig(t[1], d - 1)}.{t[2]}"
    if k == "elem":
        return f"{sig(t[1], d - 1)}[{'' if t[2] is None else sig(t[2], d - 1)}]"
    if k == "op":
        return f"{t[1]}<{','.join(sig(x, d - 1) for x in t[2])}>"
    if k == "alt":
        return "{" + "|".join(sorted(sig(x, d) for x in t[1])) + "}"
    if k == "global":
        return t[1]
    if k == "self":
        return "self"
    return "~"


def show(t, depth=0) -> str:
    if not isinstance(t, tuple):
        return repr(t)
    k = t[0]
    if k == "const":
        return repr(t[1])
    if k == "param":
        return f"param:{t[1].split('.')[-1]}.{t[2]}"
    if k == "call":
        nm = t[1].split(":")[-1].split(".")[-1] if not t[1].startswith("ext:") else t[1][4:]
        a = ", ".join(show(x) for x in t[2])
        kw = ", ".join(f"{k2}={show(v)}" for k2, v in t[3].items())
        r = (show(t[5]) + ".") if t[5] is not None and not t[1].startswith(("ext:", "builtin:")) else ""
        return f"{r}{nm}({', '.join(x for x in (a, kw) if x)})"
    if k == "attr":
        return f"{show(t[1])}.{t[2]}"
    if k == "elem":
        return f"{show(t[1])}[{'' if t[2] is None else show(t[2])}]"
    if k == "op":
        return f"{t[1]}<{', '.join(show(x) for x in t[2])}>"
    if k == "alt":
        return "{" + " | ".join(show(x) for x in t[1]) + "}"
    if k == "global":
        return t[1]
    if k == "self":
        return "self"
    return f"?{t[1]}"
