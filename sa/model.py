"""Program model of ascmitc/mhl built from source text only (ast): modules, imports, functions, classes,
constants, receiver-type inference, call resolution and call graph, CLI entry points.

Nothing from the repository is imported or executed.
"""
from __future__ import annotations

import ast
import hashlib
import os
from collections import defaultdict
from typing import Dict, List, Optional, Tuple

PKG = "ascmhl"


MEMO_DECORATORS = {"functools.lru_cache", "functools.cache", "lru_cache", "cache", "functools.cached_property", "cached_property"}


class AnalysisError(Exception):
    """The checker cannot interpret the code (anchor vanished, idiom outside the enumerated set)."""


def norm(node) -> str:
    """whitespace-normalised source of a node; used in finding keys (never line numbers)."""
    if isinstance(node, str):
        return " ".join(node.split())
    try:
        return " ".join(ast.unparse(node).split())
    except Exception:  # pragma: no cover
        return repr(node)


def set_parents(tree):
    for parent in ast.walk(tree):
        for child in ast.iter_child_nodes(parent):
            child._parent = parent  # type: ignore[attr-defined]
    tree._parent = None  # type: ignore[attr-defined]


def parent(node):
    return getattr(node, "_parent", None)


def ancestors(node):
    p = parent(node)
    while p is not None:
        yield p
        p = parent(p)


def walk_no_nested(node, include_lambda=True):
    """walk the body of a function without descending into nested function/class definitions."""
    if isinstance(node, (ast.FunctionDef, ast.AsyncFunctionDef)):
        stack = list(node.body)  # decorators and defaults are evaluated in the enclosing scope
    else:
        stack = list(ast.iter_child_nodes(node))
    while stack:
        n = stack.pop()
        if isinstance(n, (ast.FunctionDef, ast.AsyncFunctionDef, ast.ClassDef)):
            continue
        if not include_lambda and isinstance(n, ast.Lambda):
            continue
        yield n
        stack.extend(ast.iter_child_nodes(n))


class Module:
    def __init__(self, name, path, src):
        self.name = name
        self.path = path
        self.src = src
        self.tree = ast.parse(src, path)
        set_parents(self.tree)
        self.imports: Dict[str, str] = {}
        self.star_from: List[str] = []
        self.is_package = path.endswith("__init__.py")


class Func:
    def __init__(self, qual, node, module, cls=None, outer=None):
        self.qual = qual
        self.node = node
        self.module: Module = module
        self.cls: Optional[str] = cls
        self.outer: Optional["Func"] = outer
        self.name = node.name
        self.decorators = [norm(d) for d in node.decorator_list]
        a = node.args
        self.params = [x.arg for x in a.posonlyargs + a.args]
        self.kwonly = [x.arg for x in a.kwonlyargs]
        self.vararg = a.vararg.arg if a.vararg else None
        self.kwarg = a.kwarg.arg if a.kwarg else None
        self.is_static = any(d.endswith("staticmethod") for d in self.decorators)
        self.is_classmethod = any(d.endswith("classmethod") for d in self.decorators)
        self.is_property = any(d == "property" for d in self.decorators)
        # memoising decorators keep the call target (call graph unchanged) but serve repeated calls from a cache
        self.memoised = any(d.split("(")[0] in MEMO_DECORATORS for d in self.decorators)

    @property
    def rel(self):
        return os.path.relpath(self.module.path, self.module.path.split("/ascmhl/")[0]) if "/ascmhl/" in self.module.path else self.module.path

    def loc(self, node=None):
        n = node if node is not None else self.node
        return f"{self.rel}:{getattr(n, 'lineno', '?')}"

    def is_generator(self):
        return any(isinstance(n, (ast.Yield, ast.YieldFrom)) for n in walk_no_nested(self.node))

    def param_defaults(self):
        a = self.node.args
        pos = a.posonlyargs + a.args
        out = {}
        for p, d in zip(pos[len(pos) - len(a.defaults):], a.defaults):
            out[p.arg] = d
        for p, d in zip(a.kwonlyargs, a.kw_defaults):
            if d is not None:
                out[p.arg] = d
        return out

    def __repr__(self):
        return f"<Func {self.qual}>"


class Class:
    def __init__(self, qual, node, module):
        self.qual = qual
        self.node = node
        self.module = module
        self.name = node.name
        self.bases: List[str] = []  # resolved quals or 'ext:...'
        self.methods: Dict[str, Func] = {}
        self.fields: Dict[str, tuple] = {}  # annotated / inferred types
        self.class_consts: Dict[str, ast.AST] = {}


class FuncTable(dict):
    """qualified name -> Func. In the helper-inlined view, private helpers whose every call site was inlined are dead code:
    they stay addressable by name (rules anchored on them still find them) but are skipped when the table is iterated, so that
    rules scanning 'all functions' do not see their statements twice."""

    def __init__(self):
        super().__init__()
        self.hidden = set()

    def __iter__(self):
        return (k for k in super().__iter__() if k not in self.hidden)

    def keys(self):
        return [k for k in super().keys() if k not in self.hidden]

    def items(self):
        return [(k, v) for k, v in super().items() if k not in self.hidden]

    def values(self):
        return [v for k, v in super().items() if k not in self.hidden]

    def __len__(self):
        return super().__len__() - len(self.hidden)


class Program:
    def __init__(self, repo="/repo", inline_from=None):
        """inline_from: a plain Program of the same tree; when given, private same-module helpers are inlined into their
        callers before indexing (sa/inline.py) - an equivalent second view of the same program"""
        self.repo = os.path.abspath(repo)
        self.inline_from = inline_from
        self.inline_stats = None
        self.modules: Dict[str, Module] = {}
        self.funcs: Dict[str, Func] = FuncTable()
        self.classes: Dict[str, Class] = {}
        self.func_of_node: Dict[int, Func] = {}
        self._env_cache: Dict[str, dict] = {}
        self._ret_cache: Dict[str, object] = {}
        self._param_types: Dict[Tuple[str, str], tuple] = {}
        self.calls: Dict[str, List[Tuple[ast.Call, List[str]]]] = {}
        self.callers: Dict[str, List[Tuple[str, ast.Call]]] = defaultdict(list)
        self._load()
        self._index()
        self._infer()
        self._positionalise_required_keywords()
        if self.inline_from is not None:
            self.funcs.hidden = {q for q, f in dict.items(self.funcs) if getattr(f.node, "_dead_helper", False)}
            for t in list(self.callers):
                self.callers[t] = [(c, call) for c, call in self.callers[t] if c not in self.funcs.hidden]

    def _positionalise_required_keywords(self):
        """`f(top=a, root=b)` -> `f(a, b)` for the REQUIRED positional parameters of package functions (a call-site spelling, same call): the rules read
        arguments by position. Keywords for parameters that have a default are left alone (the reference tree passes those by name and rules look for them)."""
        import os as _os

        if _os.environ.get("VERIF_NO_NORMALISE"):
            return
        for fq, cs in self.calls.items():
            for call, tg in cs:
                if not call.keywords or any(k.arg is None for k in call.keywords) or any(isinstance(a, ast.Starred) for a in call.args):
                    continue
                cands = []
                for t in tg:
                    if t in self.funcs:
                        cands.append(self.funcs[t])
                    elif t.startswith("class:") and t[6:] in self.classes and "__init__" in self.classes[t[6:]].methods:
                        cands.append(self.classes[t[6:]].methods["__init__"])
                    else:
                        cands = []
                        break
                if not cands:
                    continue
                orders = set()
                for f in cands:
                    if f.vararg:
                        orders.add(None)
                        continue
                    params = list(f.params)
                    if f.name == "__init__" or self._receiver_bound(f, call):
                        params = params[1:]
                    dfl = f.param_defaults()
                    orders.add(tuple(x for x in params if x not in dfl))
                if len(orders) != 1 or None in orders:
                    continue
                required = list(orders.pop())
                kw = {k.arg: k for k in call.keywords}
                npos = len(call.args)
                moved = False
                while npos < len(required) and required[npos] in kw:
                    k = kw.pop(required[npos])
                    call.args.append(k.value)
                    call.keywords.remove(k)
                    npos += 1
                    moved = True
                if moved:
                    for a in call.args:
                        if getattr(a, "_parent", None) is not call:
                            try:
                                a._parent = call
                            except Exception:
                                pass

    # ------------------------------------------------------------------ loading
    def _load(self):
        pkg_dir = os.path.join(self.repo, PKG)
        if not os.path.isdir(pkg_dir):
            raise AnalysisError(f"package directory {pkg_dir} missing")
        digest = hashlib.sha256()
        for dp, dn, fn in sorted(os.walk(pkg_dir)):
            dn.sort()
            if "__pycache__" in dp:
                continue
            for f in sorted(fn):
                if not f.endswith(".py"):
                    continue
                p = os.path.join(dp, f)
                rel = os.path.relpath(p, self.repo)[:-3].replace(os.sep, ".")
                if rel.endswith(".__init__"):
                    rel = rel[: -len(".__init__")]
                try:
                    src = open(p, encoding="utf-8").read()
                    self.modules[rel] = Module(rel, p, src)
                except SyntaxError as e:
                    raise AnalysisError(f"syntax error in {p}: {e}")
                digest.update(p.encode())
                digest.update(src.encode())
        sp = os.path.join(self.repo, "setup.py")
        if os.path.exists(sp):
            src = open(sp, encoding="utf-8").read()
            self.setup = Module("setup", sp, src)
            digest.update(src.encode())
        else:
            self.setup = None
        # renamed functions are given back the names the rules know them by (sa/renames.py; a normalisation, not a verdict)
        from . import renames as _renames

        self.renames_undone = _renames.recover(self.modules)
        from . import normalise as _normalise

        self.normalised = _normalise.apply(self.modules)
        if self.inline_from is not None:
            from .inline import inline_modules

            self.inline_stats = inline_modules(self.inline_from, self.modules)
            digest.update(b"inlined-view")
        self.digest = digest.hexdigest()
        if len(self.modules) < 20:
            raise AnalysisError(f"only {len(self.modules)} modules parsed under {pkg_dir}; expected >= 20")

    def _resolve_from(self, m: Module, level, module):
        if level:
            parts = m.name.split(".")
            if not m.is_package:
                parts = parts[:-1]
            parts = parts[: len(parts) - (level - 1)] if level > 1 else parts
            base = ".".join(parts + ([module] if module else []))
        else:
            base = module or ""
        return base

    def _index(self):
        # pass 1: definitions
        for m in self.modules.values():
            self._index_block(m, m.tree.body, m.name, None, None)
        # pass 2: imports
        for m in self.modules.values():
            for n in ast.walk(m.tree):
                if isinstance(n, ast.Import):
                    for a in n.names:
                        if a.asname:
                            m.imports[a.asname] = a.name
                        else:
                            m.imports[a.name.split(".")[0]] = a.name.split(".")[0]
                elif isinstance(n, ast.ImportFrom):
                    base = self._resolve_from(m, n.level, n.module)
                    for a in n.names:
                        if a.name == "*":
                            m.star_from.append(base)
                        else:
                            m.imports[a.asname or a.name] = base + "." + a.name
        # star imports: re-export definitions and imports of the target (two rounds for chains)
        for _ in range(2):
            for m in self.modules.values():
                for base in m.star_from:
                    t = self.modules.get(base)
                    if not t:
                        continue
                    for s in t.tree.body:
                        if isinstance(s, (ast.FunctionDef, ast.ClassDef)):
                            m.imports.setdefault(s.name, base + "." + s.name)
                        elif isinstance(s, ast.Assign):
                            for tg in s.targets:
                                if isinstance(tg, ast.Name):
                                    m.imports.setdefault(tg.id, base + "." + tg.id)
                    for k, v in t.imports.items():
                        m.imports.setdefault(k, v)
        # class bases
        for c in self.classes.values():
            for b in c.node.bases:
                q = self.resolve_name_expr(b, c.module)
                c.bases.append(q if q else "ext:" + norm(b))

    def _index_block(self, m, body, prefix, cls, outer):
        for n in body:
            if isinstance(n, (ast.FunctionDef, ast.AsyncFunctionDef)):
                q = prefix + "." + n.name
                f = Func(q, n, m, cls=cls, outer=outer)
                self.funcs[q] = f
                if cls and outer is None:
                    self.classes[cls].methods[n.name] = f
                for x in ast.walk(n):
                    self.func_of_node.setdefault(id(x), f)
                # nested defs
                self._index_nested(m, n, q, f)
            elif isinstance(n, ast.ClassDef):
                q = prefix + "." + n.name
                self.classes[q] = Class(q, n, m)
                self._index_block(m, n.body, q, q, None)
            elif isinstance(n, (ast.If, ast.Try)):
                for blk in ("body", "orelse", "finalbody"):
                    self._index_block(m, getattr(n, blk, []), prefix, cls, outer)
                for h in getattr(n, "handlers", []):
                    self._index_block(m, h.body, prefix, cls, outer)

    def _index_nested(self, m, fnode, prefix, outer):
        for n in walk_no_nested(fnode):
            pass
        stack = list(fnode.body)
        while stack:
            n = stack.pop()
            if isinstance(n, (ast.FunctionDef, ast.AsyncFunctionDef)):
                q = prefix + "." + n.name
                f = Func(q, n, m, cls=None, outer=outer)
                self.funcs[q] = f
                for x in ast.walk(n):
                    self.func_of_node[id(x)] = f
                self._index_nested(m, n, q, f)
            elif isinstance(n, ast.ClassDef):
                continue
            else:
                stack.extend(c for c in ast.iter_child_nodes(n) if isinstance(c, ast.stmt) or isinstance(c, ast.ExceptHandler))

    # ------------------------------------------------------------------ name resolution
    def resolve_name_expr(self, e, m: Module) -> Optional[str]:
        """resolve a Name / dotted Attribute used at module level (class base, decorator…) to a qualified name"""
        if isinstance(e, ast.Name):
            if m.name + "." + e.id in self.classes or m.name + "." + e.id in self.funcs:
                return m.name + "." + e.id
            return m.imports.get(e.id)
        if isinstance(e, ast.Attribute):
            b = self.resolve_name_expr(e.value, m)
            return b + "." + e.attr if b else None
        return None

    def module_of(self, qual):
        parts = qual.split(".")
        for i in range(len(parts), 0, -1):
            if ".".join(parts[:i]) in self.modules:
                return self.modules[".".join(parts[:i])]
        return None

    def mro(self, cq, _seen=None) -> List[str]:
        _seen = _seen or set()
        if cq in _seen or cq not in self.classes:
            return []
        _seen.add(cq)
        out = [cq]
        for b in self.classes[cq].bases:
            if b in self.classes:
                out += self.mro(b, _seen)
        return out

    def ext_bases(self, cq) -> List[str]:
        out = []
        for k in self.mro(cq):
            out += [b for b in self.classes[k].bases if b not in self.classes]
        return out

    def subclasses(self, cq) -> List[str]:
        return [k for k in self.classes if k != cq and cq in self.mro(k)]

    def find_method(self, cq, name) -> Optional[str]:
        for k in self.mro(cq):
            if name in self.classes[k].methods:
                return self.classes[k].methods[name].qual
        return None

    def dispatch(self, cq, name) -> List[str]:
        """class-hierarchy dispatch: the method found along the MRO plus overrides in subclasses"""
        out = []
        r = self.find_method(cq, name)
        if r:
            out.append(r)
        for s in self.subclasses(cq):
            if name in self.classes[s].methods:
                q = self.classes[s].methods[name].qual
                if q not in out:
                    out.append(q)
        return out

    # ------------------------------------------------------------------ constants
    def module_const(self, m: Module, name, depth=0):
        """value of a module-level single-assignment constant (followed through imports)."""
        if depth > 6:
            return None
        assigns = [s for s in m.tree.body if isinstance(s, ast.Assign) and any(isinstance(t, ast.Name) and t.id == name for t in s.targets)]
        if len(assigns) == 1:
            return self.fold(assigns[0].value, None, m, depth + 1)
        if not assigns and name in m.imports:
            q = m.imports[name]
            mod, _, nm = q.rpartition(".")
            if mod in self.modules:
                return self.module_const(self.modules[mod], nm, depth + 1)
        return None

    def fold(self, e, func: Optional[Func], m: Optional[Module] = None, depth=0):
        """constant folding; returns a Python value or None when not constant."""
        m = m or (func.module if func else None)
        if depth > 8 or e is None:
            return None
        if isinstance(e, ast.Constant):
            return e.value
        if isinstance(e, (ast.List, ast.Tuple)):
            vals = [self.fold(x, func, m, depth + 1) for x in e.elts]
            if any(v is None for v in vals):
                return None
            return vals if isinstance(e, ast.List) else tuple(vals)
        if isinstance(e, ast.BinOp):
            l, r = self.fold(e.left, func, m, depth + 1), self.fold(e.right, func, m, depth + 1)
            if l is None or r is None:
                return None
            try:
                if isinstance(e.op, ast.Add):
                    return l + r
                if isinstance(e.op, ast.Mult):
                    return l * r
                if isinstance(e.op, ast.Sub):
                    return l - r
                if isinstance(e.op, ast.FloorDiv):
                    return l // r
                if isinstance(e.op, ast.Pow) and abs(r) < 64:
                    return l ** r
                if isinstance(e.op, ast.LShift) and r < 64:
                    return l << r
            except Exception:
                return None
            return None
        if isinstance(e, ast.UnaryOp) and isinstance(e.op, ast.USub):
            v = self.fold(e.operand, func, m, depth + 1)
            return -v if isinstance(v, (int, float)) else None
        if isinstance(e, ast.JoinedStr):
            out = ""
            for v in e.values:
                if isinstance(v, ast.Constant):
                    out += str(v.value)
                elif isinstance(v, ast.FormattedValue) and v.format_spec is None and v.conversion == -1:
                    x = self.fold(v.value, func, m, depth + 1)
                    if not isinstance(x, str):
                        return None
                    out += x
                else:
                    return None
            return out
        if isinstance(e, ast.Name):
            if func is not None:
                # local single-assignment constant (no other binding of that name in the function)
                f = func
                while f is not None:
                    binds = [n for n in walk_no_nested(f.node) if isinstance(n, ast.Name) and n.id == e.id and isinstance(n.ctx, ast.Store)]
                    if e.id in f.params + f.kwonly or e.id in (f.vararg, f.kwarg):
                        return None
                    if binds:
                        if len(binds) != 1:
                            return None
                        st = parent(binds[0])
                        if isinstance(st, ast.Assign) and len(st.targets) == 1 and st.targets[0] is binds[0]:
                            return self.fold(st.value, f, m, depth + 1)
                        return None
                    f = f.outer
            if m is not None:
                return self.module_const(m, e.id, depth + 1)
            return None
        if isinstance(e, ast.Attribute):
            # module.CONST or Class.CONST
            q = self.resolve_name_expr(e.value, m) if m else None
            if q in self.modules:
                return self.module_const(self.modules[q], e.attr, depth + 1)
            if q in self.classes:
                for k in self.mro(q):
                    c = self.classes[k]
                    for s in c.node.body:
                        if isinstance(s, ast.Assign) and any(isinstance(t, ast.Name) and t.id == e.attr for t in s.targets):
                            return self.fold(s.value, None, c.module, depth + 1)
            if isinstance(e.value, ast.Name) and e.value.id in ("cls", "self") and func is not None and func.cls:
                for k in self.mro(func.cls):
                    c = self.classes[k]
                    for s in c.node.body:
                        if isinstance(s, ast.Assign) and any(isinstance(t, ast.Name) and t.id == e.attr for t in s.targets):
                            return self.fold(s.value, None, c.module, depth + 1)
            return None
        if isinstance(e, ast.Call) and isinstance(e.func, ast.Name) and e.func.id == "len" and len(e.args) == 1:
            v = self.fold(e.args[0], func, m, depth + 1)
            return len(v) if isinstance(v, (str, list, tuple)) else None
        if isinstance(e, ast.Call) and isinstance(e.func, ast.Name) and e.func.id in ("list", "tuple") and len(e.args) == 1 and not e.keywords:
            v = self.fold(e.args[0], func, m, depth + 1)
            if isinstance(v, (list, tuple)):
                return list(v) if e.func.id == "list" else tuple(v)
            return None
        return None

    # ------------------------------------------------------------------ types
    def ann_type(self, m: Module, ann):
        if ann is None:
            return None
        if isinstance(ann, ast.Constant) and isinstance(ann.value, str):
            try:
                ann = ast.parse(ann.value, mode="eval").body
            except Exception:
                return None
        if isinstance(ann, (ast.Name, ast.Attribute)):
            q = self.resolve_name_expr(ann, m)
            if q in self.classes:
                return ("C", q)
            if isinstance(ann, ast.Name) and ann.id in ("str", "int", "bool", "bytes", "float"):
                return ("Prim", ann.id)
            if q:
                return ("Ext", q)
            return None
        if isinstance(ann, ast.List) and len(ann.elts) == 1:  # the repo writes `[str]`
            i = self.ann_type(m, ann.elts[0])
            return ("List", i) if i else None
        if isinstance(ann, ast.Subscript):
            b = norm(ann.value).split(".")[-1]
            sl = ann.slice
            if b in ("List", "Set", "list", "set", "Iterable", "Sequence", "Iterator"):
                i = self.ann_type(m, sl)
                return ("List", i) if i else ("List", None)
            if b == "Optional":
                return self.ann_type(m, sl)
            if b in ("Dict", "dict", "DefaultDict", "defaultdict") and isinstance(sl, ast.Tuple) and len(sl.elts) == 2:
                return ("Dict", self.ann_type(m, sl.elts[0]), self.ann_type(m, sl.elts[1]))
            if b in ("Tuple", "tuple") and isinstance(sl, ast.Tuple):
                return ("Tuple", [self.ann_type(m, x) for x in sl.elts])
        return None

    def _infer(self):
        # class fields: annotations + self.x = ... in __init__
        for c in self.classes.values():
            for s in c.node.body:
                if isinstance(s, ast.AnnAssign) and isinstance(s.target, ast.Name):
                    t = self.ann_type(c.module, s.annotation)
                    if t:
                        c.fields[s.target.id] = t
        for _round in range(2):
            self._env_cache.clear()
            self._ret_cache.clear()
            for c in self.classes.values():
                for meth in c.methods.values():
                    env = self.env(meth)
                    for n in walk_no_nested(meth.node):
                        if isinstance(n, ast.Assign) and len(n.targets) == 1:
                            t = n.targets[0]
                            if isinstance(t, ast.Attribute) and isinstance(t.value, ast.Name) and t.value.id == "self" and t.attr not in c.fields:
                                ty = self.etype(n.value, meth)
                                if ty:
                                    c.fields[t.attr] = ty
            # parameter types from call sites
            self._env_cache.clear()
            self._ret_cache.clear()
            self._build_callgraph()
            newp = {}
            for fq, f in self.funcs.items():
                for caller, call in self.callers.get(fq, []):
                    cf = self.funcs[caller]
                    binding = self.bind_args(f, call, receiver_bound=self._receiver_bound(f, call))
                    for p, arg in binding.items():
                        if arg is None:
                            continue
                        ty = self.etype(arg, cf)
                        if ty and ty[0] in ("C", "Dict", "List", "ExtRet"):
                            newp.setdefault((fq, p), ty)
            self._param_types = newp
        self._env_cache.clear()
        self._ret_cache.clear()
        self._build_callgraph()

    def _receiver_bound(self, f: Func, call: ast.Call) -> bool:
        """True when the first declared parameter (self/cls) is bound by the receiver, not by an argument"""
        if not f.cls or f.is_static or f.outer is not None:
            return False
        return True

    def bind_args(self, f: Func, call: ast.Call, receiver_bound=None) -> Dict[str, Optional[ast.AST]]:
        """map parameter name -> argument expression at this call site (defaults -> default expr)"""
        if receiver_bound is None:
            receiver_bound = self._receiver_bound(f, call)
        params = list(f.params)
        if f.name == "__init__" or receiver_bound:
            params = params[1:] if params else params
        out: Dict[str, Optional[ast.AST]] = {}
        defaults = f.param_defaults()
        for p in params + f.kwonly:
            out[p] = defaults.get(p)
        pos = [a for a in call.args if not isinstance(a, ast.Starred)]
        for p, a in zip(params, pos):
            out[p] = a
        for kw in call.keywords:
            if kw.arg and kw.arg in out:
                out[kw.arg] = kw.value
        return out

    def env(self, f: Func) -> dict:
        if f.qual in self._env_cache:
            return self._env_cache[f.qual]
        env: dict = {}
        self._env_cache[f.qual] = env
        if f.outer is not None:
            env.update(self.env(f.outer))
        a = f.node.args
        for p in a.posonlyargs + a.args + a.kwonlyargs:
            t = self.ann_type(f.module, p.annotation) if p.annotation is not None else None
            if not t:
                t = self._param_types.get((f.qual, p.arg))
            if t:
                env[p.arg] = t
        if f.cls and not f.is_static and f.params and f.outer is None:
            env[f.params[0]] = ("Cls", f.cls) if f.is_classmethod else ("C", f.cls)
        for _ in range(3):
            for n in walk_no_nested(f.node):
                if isinstance(n, ast.Assign) and len(n.targets) == 1:
                    self._bind_target(n.targets[0], n.value, env, f)
                elif isinstance(n, ast.AnnAssign) and isinstance(n.target, ast.Name):
                    t = self.ann_type(f.module, n.annotation)
                    if t:
                        env.setdefault(n.target.id, t)
                    elif n.value is not None:
                        self._bind_target(n.target, n.value, env, f)
                elif isinstance(n, (ast.For, ast.comprehension)):
                    it = self.etype(n.iter, f, env)
                    self._bind_elem(n.target, it, env)
                    self._bind_items(n.target, n.iter, env, f)
                elif isinstance(n, ast.withitem) and n.optional_vars is not None:
                    self._bind_target(n.optional_vars, n.context_expr, env, f)
                elif isinstance(n, ast.NamedExpr):
                    self._bind_target(n.target, n.value, env, f)
        return env

    def _bind_target(self, target, value, env, f):
        if isinstance(target, ast.Name):
            ty = self.etype(value, f, env)
            if ty:
                cur = env.get(target.id)
                if cur is not None and cur[0] == "Dict" and cur[2] is None and ty[0] == "Dict" and ty[2] is not None:
                    env[target.id] = ty
                env.setdefault(target.id, ty)
        elif isinstance(target, (ast.Tuple, ast.List)):
            ty = self.etype(value, f, env)
            if ty and ty[0] == "Tuple":
                for el, et in zip(target.elts, ty[1]):
                    if isinstance(el, ast.Name) and et:
                        env.setdefault(el.id, et)
            elif isinstance(value, (ast.Tuple, ast.List)) and len(value.elts) == len(target.elts):
                for el, v in zip(target.elts, value.elts):
                    self._bind_target(el, v, env, f)
        elif isinstance(target, ast.Subscript) and isinstance(target.value, ast.Name):
            # d[k] = Ctor(...)  => d is a Dict of that
            ty = self.etype(value, f, env)
            cur = env.get(target.value.id)
            if ty and (cur is None or (cur[0] == "Dict" and cur[2] is None)):
                env[target.value.id] = ("Dict", None, ty)

    def _bind_elem(self, target, it, env):
        if not it:
            return
        if it[0] in ("List", "Gen") and it[1]:
            el = it[1]
            if isinstance(target, ast.Name):
                env.setdefault(target.id, el)
            elif isinstance(target, (ast.Tuple, ast.List)) and el[0] == "Tuple":
                for t, et in zip(target.elts, el[1]):
                    if isinstance(t, ast.Name) and et:
                        env.setdefault(t.id, et)
        elif it[0] == "Dict" and it[1] and isinstance(target, ast.Name):
            env.setdefault(target.id, it[1])

    def _bind_items(self, target, iter_expr, env, f):
        if isinstance(iter_expr, ast.Call) and isinstance(iter_expr.func, ast.Attribute) and iter_expr.func.attr in ("items", "values", "keys"):
            dt = self.etype(iter_expr.func.value, f, env)
            if dt and dt[0] == "Dict":
                if iter_expr.func.attr == "items" and isinstance(target, (ast.Tuple, ast.List)) and len(target.elts) == 2:
                    for el, et in zip(target.elts, (dt[1], dt[2])):
                        if isinstance(el, ast.Name) and et:
                            env.setdefault(el.id, et)
                elif iter_expr.func.attr == "values" and isinstance(target, ast.Name) and dt[2]:
                    env.setdefault(target.id, dt[2])
                elif iter_expr.func.attr == "keys" and isinstance(target, ast.Name) and dt[1]:
                    env.setdefault(target.id, dt[1])

    def enum_member_classes(self, cq):
        c = self.classes[cq]
        out = []
        for s in c.node.body:
            if isinstance(s, ast.Assign) and len(s.targets) == 1 and isinstance(s.targets[0], ast.Name):
                q = self.resolve_name_expr(s.value, c.module)
                if q in self.classes:
                    out.append(q)
                else:
                    return []
        return out

    def enum_members(self, cq):
        """member name -> value expression"""
        c = self.classes[cq]
        return {s.targets[0].id: s.value for s in c.node.body if isinstance(s, ast.Assign) and len(s.targets) == 1 and isinstance(s.targets[0], ast.Name)}

    def field_type(self, cq, attr):
        for k in self.mro(cq):
            if attr in self.classes[k].fields:
                return self.classes[k].fields[attr]
        return None

    def etype(self, e, f: Func, env=None):
        env = self.env(f) if env is None else env
        m = f.module
        if isinstance(e, ast.Name):
            if e.id in env:
                return env[e.id]
            q = self.resolve_name_expr(e, m)
            if q in self.classes:
                return ("Cls", q)
            if q in self.modules:
                return ("Mod", q)
            # module-level instance (updater = Updater())
            for s in m.tree.body:
                if isinstance(s, ast.Assign) and any(isinstance(t, ast.Name) and t.id == e.id for t in s.targets):
                    if isinstance(s.value, ast.Call):
                        tq = self.resolve_name_expr(s.value.func, m)
                        if tq in self.classes:
                            return ("C", tq)
            if q and q not in self.funcs:
                return ("Ext", q)
            return None
        if isinstance(e, ast.Attribute):
            bt = self.etype(e.value, f, env)
            if bt and bt[0] in ("C", "Cls"):
                ft = self.field_type(bt[1], e.attr)
                if ft:
                    return ft
                if e.attr == "value" and any(b.endswith("Enum") for b in self.ext_bases(bt[1])):
                    vals = self.enum_member_classes(bt[1])
                    if vals:
                        return ("ClsAny", vals)
                # property
                mq = self.find_method(bt[1], e.attr)
                if mq and self.funcs[mq].is_property:
                    return self.ret_type(self.funcs[mq])
                return None
            if bt and bt[0] == "Mod":
                q = bt[1] + "." + e.attr
                if q in self.classes:
                    return ("Cls", q)
                if q in self.modules:
                    return ("Mod", q)
                return None
            if bt and bt[0] == "Ext":
                return ("Ext", bt[1] + "." + e.attr)
            return None
        if isinstance(e, ast.Subscript):
            bt = self.etype(e.value, f, env)
            if bt and bt[0] == "Cls" and any(b.endswith("Enum") for b in self.ext_bases(bt[1])):
                return ("C", bt[1])  # Enum[name] -> member
            if bt and bt[0] == "List":
                if isinstance(e.slice, ast.Slice):
                    return bt
                return bt[1]
            if bt and bt[0] == "Dict":
                return bt[2]
            if bt and bt[0] == "Tuple" and isinstance(e.slice, ast.Constant) and isinstance(e.slice.value, int):
                try:
                    return bt[1][e.slice.value]
                except IndexError:
                    return None
            return None
        if isinstance(e, ast.Call):
            tg = self.resolve_call(e, f, env)
            outs = []
            for t in tg:
                if t.startswith("class:"):
                    return ("C", t[6:])
                if t in self.funcs:
                    r = self.ret_type(self.funcs[t])
                    if r:
                        outs.append(r)
                if t == "ext:collections.defaultdict" and e.args:
                    a0 = self.etype(e.args[0], f, env)
                    if a0 and a0[0] == "Cls":
                        return ("Dict", None, ("C", a0[1]))
                    if isinstance(e.args[0], ast.Name) and e.args[0].id == "list":
                        return ("Dict", None, ("List", None))
                if t in ("builtin:sorted", "builtin:list", "builtin:reversed") and e.args:
                    a0 = self.etype(e.args[0], f, env)
                    if a0 and a0[0] in ("List", "Gen"):
                        return ("List", a0[1])
                if t.startswith("ext:") and not outs:
                    return ("ExtRet", t[4:])
                if t.startswith("builtin:open"):
                    return ("ExtRet", "open")
            if isinstance(e.func, ast.Attribute) and e.func.attr in ("get", "pop", "setdefault"):
                bt = self.etype(e.func.value, f, env)
                if bt and bt[0] == "Dict":
                    return bt[2]
            if isinstance(e.func, ast.Attribute) and e.func.attr == "copy":
                return self.etype(e.func.value, f, env)
            if isinstance(e.func, ast.Attribute) and e.func.attr == "values":
                bt = self.etype(e.func.value, f, env)
                if bt and bt[0] == "Dict" and bt[2]:
                    return ("List", bt[2])
            return outs[0] if outs else None
        if isinstance(e, ast.BoolOp):
            for v in e.values:
                t = self.etype(v, f, env)
                if t:
                    return t
            return None
        if isinstance(e, ast.IfExp):
            a, b = self.etype(e.body, f, env), self.etype(e.orelse, f, env)
            # `{} if c else {k: C(k) ...}`: an empty literal carries no element type; take the informative branch
            def informative(t):
                return t is not None and not (t[0] in ("Dict", "List") and t[-1] is None)
            if a and b and a[0] == b[0] and not informative(a) and informative(b):
                return b
            return a or b
        if isinstance(e, (ast.List, ast.ListComp)):
            if isinstance(e, ast.List) and e.elts:
                return ("List", self.etype(e.elts[0], f, env))
            if isinstance(e, ast.ListComp):
                return ("List", self.etype(e.elt, f, env))
            return ("List", None)
        if isinstance(e, ast.Dict):
            v = self.etype(e.values[0], f, env) if e.values else None
            return ("Dict", None, v)
        if isinstance(e, ast.DictComp):
            return ("Dict", None, self.etype(e.value, f, env))
        if isinstance(e, ast.SetComp):
            return ("List", self.etype(e.elt, f, env))
        if isinstance(e, ast.Tuple):
            return ("Tuple", [self.etype(x, f, env) for x in e.elts])
        if isinstance(e, ast.Constant):
            if isinstance(e.value, str):
                return ("Prim", "str")
            return None
        return None

    def ret_type(self, f: Func):
        if f.qual in self._ret_cache:
            return self._ret_cache[f.qual]
        self._ret_cache[f.qual] = None
        r = None
        if f.node.returns is not None:
            r = self.ann_type(f.module, f.node.returns)
        if r is None:
            gen_elems = []
            for n in walk_no_nested(f.node):
                if isinstance(n, ast.Return) and n.value is not None and r is None:
                    r = self.etype(n.value, f)
                elif isinstance(n, ast.Yield) and n.value is not None:
                    gen_elems.append(self.etype(n.value, f))
            if f.is_generator():
                el = next((g for g in gen_elems if g), None)
                r = ("Gen", el)
        self._ret_cache[f.qual] = r
        return r

    # ------------------------------------------------------------------ calls
    def resolve_call(self, call: ast.Call, f: Func, env=None) -> List[str]:
        """targets of a call: internal function quals, 'class:<qual>' (+ its __init__ qual), 'ext:<dotted>',
        'builtin:<name>', or 'unk:<attr>' for a method on a receiver of unknown type."""
        env = self.env(f) if env is None else env
        m = f.module
        fn = call.func
        if isinstance(fn, ast.Name):
            if fn.id in env and env[fn.id][0] == "Cls":
                return self._class_targets(env[fn.id][1])
            # nested function visible from here
            g = f
            while g is not None:
                if g.qual + "." + fn.id in self.funcs:
                    return [g.qual + "." + fn.id]
                g = g.outer
            q = self.resolve_name_expr(fn, m)
            if q in self.funcs:
                return [q]
            if q in self.classes:
                return self._class_targets(q)
            if q:
                return ["ext:" + q]
            # a local name bound to function objects:  build = _a if cond else _b ; build(x)
            g = f
            binds = []
            while g is not None and not binds:
                binds = [n for n in walk_no_nested(g.node) if isinstance(n, ast.Assign) and any(isinstance(t, ast.Name) and t.id == fn.id for t in n.targets)]
                g = g.outer
            if binds:
                refs, ok = [], True
                for b in binds:
                    work = [b.value]
                    while work:
                        v = work.pop()
                        if isinstance(v, ast.IfExp):
                            work += [v.body, v.orelse]
                            continue
                        q2 = self.resolve_name_expr(v, m) if isinstance(v, (ast.Name, ast.Attribute)) else None
                        if q2 in self.funcs:
                            refs.append(q2)
                        elif q2 in self.classes:
                            refs += self._class_targets(q2)
                        else:
                            ok = False
                if ok and refs:
                    return sorted(set(refs))
                if fn.id not in env:
                    return ["call-of:" + fn.id]
            if fn.id in env:
                return ["unk:" + fn.id]
            for st in m.tree.body:
                if isinstance(st, ast.Assign) and any(isinstance(t, ast.Name) and t.id == fn.id for t in st.targets):
                    if isinstance(st.value, ast.Call) and norm(st.value.func) in ("namedtuple", "collections.namedtuple"):
                        return ["pure:namedtuple:" + fn.id]
                    return ["modvar:" + m.name + "." + fn.id]
            return ["builtin:" + fn.id]
        if isinstance(fn, ast.Attribute):
            # super().m(...)
            if isinstance(fn.value, ast.Call) and isinstance(fn.value.func, ast.Name) and fn.value.func.id == "super" and f.cls:
                for k in self.mro(f.cls)[1:]:
                    if fn.attr in self.classes[k].methods:
                        return [self.classes[k].methods[fn.attr].qual]
                eb = self.ext_bases(f.cls)
                return ["ext:" + (eb[0][4:] if eb and eb[0].startswith("ext:") else (eb[0] if eb else "object")) + "." + fn.attr]
            ft = self.etype(fn, f, env)
            if ft and ft[0] == "ClsAny":
                out = []
                for cq in ft[1]:
                    out += self._class_targets(cq)
                return out
            bt = self.etype(fn.value, f, env)
            if bt:
                if bt[0] in ("C", "Cls"):
                    r = self.dispatch(bt[1], fn.attr)
                    if r:
                        return r
                    # field holding a callable class? (hash_type.value())
                    eb = self.ext_bases(bt[1])
                    if eb:
                        b = eb[0]
                        return ["ext:" + (b[4:] if b.startswith("ext:") else b) + "." + fn.attr]
                    return ["unk:" + fn.attr]
                if bt[0] == "ClsAny":
                    return ["unk:" + fn.attr]
                if bt[0] == "Mod":
                    q = bt[1] + "." + fn.attr
                    if q in self.funcs:
                        return [q]
                    if q in self.classes:
                        return self._class_targets(q)
                    # re-exported through the module's imports (star import etc.)
                    mm = self.modules[bt[1]]
                    if fn.attr in mm.imports:
                        q2 = mm.imports[fn.attr]
                        if q2 in self.funcs:
                            return [q2]
                        if q2 in self.classes:
                            return self._class_targets(q2)
                        return ["ext:" + q2]
                    return ["ext:" + q]
                if bt[0] == "Ext":
                    return ["ext:" + bt[1] + "." + fn.attr]
                if bt[0] == "ExtRet":
                    return ["extm:" + bt[1] + "()." + fn.attr]
                if bt[0] in ("List", "Dict", "Prim", "Tuple", "Gen"):
                    return ["builtinm:" + bt[0].lower() + "." + fn.attr]
            return ["unk:" + fn.attr]
        if isinstance(fn, ast.Call):
            # f()() e.g. self.hashlib_type()()
            inner = self.resolve_call(fn, f, env)
            out = []
            for t in inner:
                r = self.ret_type(self.funcs[t]) if t in self.funcs else None
                if r and r[0] == "Ext":
                    out.append("ext:" + r[1])
                elif r and r[0] == "Cls":
                    out += self._class_targets(r[1])
                elif t in self.funcs and not [n for n in walk_no_nested(self.funcs[t].node) if isinstance(n, ast.Return) and n.value is not None]:
                    continue  # abstract / returns nothing: contributes no callable
                else:
                    out.append("call-of:" + t)
            return out or ["unk:?"]
        return ["unk:?"]

    def _class_targets(self, cq):
        out = ["class:" + cq]
        init = self.find_method(cq, "__init__")
        if init:
            out.append(init)
        return out

    def _build_callgraph(self):
        self.calls = {}
        self.callers = defaultdict(list)
        self.stats = {"call_sites": 0, "internal": 0, "external": 0, "unknown_receiver": 0, "unknown_pkgname": 0}
        method_names = defaultdict(list)
        for q, fn in self.funcs.items():
            method_names[fn.name].append(q)
        self.method_names = method_names
        for fq, f in self.funcs.items():
            lst = []
            env = self.env(f)
            for n in walk_no_nested(f.node):
                if isinstance(n, ast.Call):
                    tg = self.resolve_call(n, f, env)
                    if any(t.endswith("threading.Thread.start") for t in tg) and isinstance(n.func, ast.Attribute):
                        rt = self.etype(n.func.value, f, env)
                        if rt and rt[0] == "C":
                            tg = tg + self.dispatch(rt[1], "run")  # Thread.start() runs the subclass's run()
                    self.stats["call_sites"] += 1
                    if any(t in self.funcs or t.startswith("class:") for t in tg):
                        self.stats["internal"] += 1
                    elif all(t.startswith("unk:") for t in tg):
                        self.stats["unknown_receiver"] += 1
                        nm = tg[0][4:]
                        if nm in method_names:
                            self.stats["unknown_pkgname"] += 1
                    else:
                        self.stats["external"] += 1
                    lst.append((n, tg))
                    for t in tg:
                        if t in self.funcs:
                            self.callers[t].append((fq, n))
            # reading a property runs its getter: x.prop  ==>  call edge to the getter
            for n in walk_no_nested(f.node):
                if isinstance(n, ast.Attribute) and isinstance(n.ctx, ast.Load):
                    bt = self.etype(n.value, f, env)
                    if bt and bt[0] == "C":
                        mq = self.find_method(bt[1], n.attr)
                        if mq and self.funcs[mq].is_property:
                            syn = ast.Call(func=n, args=[], keywords=[])
                            ast.copy_location(syn, n)
                            syn._parent = parent(n)  # type: ignore[attr-defined]
                            syn._synthetic_property_read = True  # type: ignore[attr-defined]
                            lst.append((syn, [mq]))
                            self.callers[mq].append((fq, syn))
            self.calls[fq] = lst
        # module-level calls (e.g. updater = Updater())
        self.module_calls = {}
        for m in self.modules.values():
            lst = []
            pseudo = Func(m.name + ".<module>", ast.FunctionDef(name="<module>", args=ast.arguments(posonlyargs=[], args=[], kwonlyargs=[], kw_defaults=[], defaults=[]), body=[], decorator_list=[]), m)
            for s in m.tree.body:
                if isinstance(s, (ast.FunctionDef, ast.AsyncFunctionDef, ast.ClassDef)):
                    continue
                for n in ast.walk(s):
                    if isinstance(n, ast.Call):
                        lst.append((n, self.resolve_call(n, pseudo, {})))
            self.module_calls[m.name] = lst

    def callees(self, fq, may=True) -> List[Tuple[ast.Call, List[str]]]:
        return self.calls.get(fq, [])

    def may_targets(self, tg: List[str]) -> List[str]:
        """over-approximate unknown-receiver method calls to every package method of that name"""
        out = []
        for t in tg:
            if t in self.funcs:
                out.append(t)
            elif t.startswith("unk:"):
                out += [q for q in self.method_names.get(t[4:], []) if self.funcs[q].cls]
        return out

    def reachable(self, roots: List[str], stop=()) -> Dict[str, Tuple[Optional[str], Optional[ast.Call]]]:
        """functions reachable in the call graph (may-analysis); value = (predecessor, call site) for witness paths"""
        seen: Dict[str, Tuple[Optional[str], Optional[ast.Call]]] = {r: (None, None) for r in roots}
        work = list(roots)
        while work:
            q = work.pop()
            if q in stop:
                continue
            for call, tg in self.calls.get(q, []):
                for t in self.may_targets(tg):
                    if t not in seen:
                        seen[t] = (q, call)
                        work.append(t)
            # nested functions defined inside are reachable when referenced; include them conservatively
            for nq, nf in self.funcs.items():
                if nf.outer is not None and nf.outer.qual == q and nq not in seen:
                    seen[nq] = (q, None)
                    work.append(nq)
        return seen

    def witness(self, reach, q) -> List[str]:
        path = []
        while q is not None:
            pred, call = reach[q]
            path.append(q if call is None else f"{q} (called at {self.funcs[pred].loc(call)})")
            q = pred
        return list(reversed(path))

    # ------------------------------------------------------------------ entry points
    def entry_points(self):
        """console_scripts -> group -> commands. returns {script: {"group": qual, "module": modname,
        "commands": [Func], "callbacks": [Func]}}"""
        out = {}
        if not self.setup:
            raise AnalysisError("setup.py missing: cannot determine shipped commands")
        scripts = []
        for n in ast.walk(self.setup.tree):
            if isinstance(n, ast.Dict):
                for k, v in zip(n.keys, n.values):
                    if isinstance(k, ast.Constant) and k.value == "console_scripts" and isinstance(v, (ast.List, ast.Tuple)):
                        for e in v.elts:
                            if isinstance(e, ast.Constant) and isinstance(e.value, str):
                                scripts.append(e.value)
        for s in scripts:
            name, _, target = [x.strip() for x in s.partition("=")]
            modname, _, obj = target.partition(":")
            m = self.modules.get(modname)
            if not m:
                raise AnalysisError(f"console script {s!r}: module {modname} not found")
            cmds, cbs = [], []
            for n in ast.walk(m.tree):
                if isinstance(n, ast.Call) and isinstance(n.func, ast.Attribute) and n.func.attr == "add_command" and norm(n.func.value) == obj:
                    regs = [n.args[0]]
                    # `for command in (commands.create, commands.diff, ..): group.add_command(command)` at module level
                    lp = parent(parent(n)) if isinstance(parent(n), ast.Expr) else None
                    if isinstance(n.args[0], ast.Name) and isinstance(lp, ast.For) and parent(lp) is m.tree and isinstance(lp.target, ast.Name) and lp.target.id == n.args[0].id and isinstance(lp.iter, (ast.Tuple, ast.List)) and not lp.orelse and len(lp.body) == 1:
                        regs = list(lp.iter.elts)
                    for a0 in regs:
                        q = self.resolve_name_expr(a0, m)
                        if q not in self.funcs:
                            raise AnalysisError(f"{m.name}: add_command({norm(a0)}) does not resolve to a package function")
                        cmds.append(self.funcs[q])
            for q, f in self.funcs.items():
                if f.module is m and any(d.startswith(obj + ".result_callback") or d.startswith(obj + ".resultcallback") for d in f.decorators):
                    cbs.append(f)
            out[name] = {"group": modname + "." + obj, "module": modname, "commands": cmds, "callbacks": cbs, "obj": obj}
        if not out:
            raise AnalysisError("no console_scripts found in setup.py")
        return out

    def shipped_commands(self) -> Dict[str, Func]:
        out = {}
        for s, d in self.entry_points().items():
            for c in d["commands"]:
                out[c.name] = c
        return out

    def click_options(self, f: Func) -> Dict[str, dict]:
        """parameter name -> {'decl': [...], 'multiple': bool, 'kind': option|argument}"""
        out = {}
        for d in f.node.decorator_list:
            if isinstance(d, ast.Call) and norm(d.func) in ("click.option", "click.argument"):
                strs = [a.value for a in d.args if isinstance(a, ast.Constant) and isinstance(a.value, str)]
                kw = {k.arg: k.value for k in d.keywords}
                pname = None
                for s in strs:
                    if not s.startswith("-"):
                        pname = s
                if pname is None:
                    longs = [s for s in strs if s.startswith("--")]
                    pname = (longs[0][2:] if longs else strs[0].lstrip("-")).replace("-", "_")
                out[pname] = {
                    "decl": strs,
                    "kind": norm(d.func).split(".")[-1],
                    "multiple": isinstance(kw.get("multiple"), ast.Constant) and kw["multiple"].value is True,
                    "node": d,
                }
        return out

    # ------------------------------------------------------------------ soundness side conditions (3.1)
    def dynamic_constructs(self) -> List[str]:
        bad = []
        allowed_deco_prefix = ("click.", "classmethod", "staticmethod", "abstractmethod", "property", "unique")
        for q, f in self.funcs.items():
            for d in f.decorators:
                if d.split("(")[0] in MEMO_DECORATORS:
                    continue  # transparent for call resolution; rules that care consult Func.memoised
                if d in ("contextlib.contextmanager", "contextmanager"):
                    continue  # a generator used in `with`: the call edge exists, the body is analysed as a function
                if d.startswith(allowed_deco_prefix) or ".result_callback" in d or ".resultcallback" in d or ".command" in d or ".group" in d:
                    continue
                bad.append(f"{f.loc()}: decorator {d} on {q}")
        for m in self.modules.values():
            for n in ast.walk(m.tree):
                if isinstance(n, ast.Call):
                    nm = norm(n.func)
                    if nm in ("eval", "exec", "__import__", "importlib.import_module", "globals", "locals", "vars", "compile"):
                        bad.append(f"{os.path.relpath(m.path, self.repo)}:{n.lineno}: dynamic construct {nm}()")
                    if nm in ("getattr", "setattr", "delattr") and len(n.args) >= 2 and not isinstance(n.args[1], ast.Constant):
                        bad.append(f"{os.path.relpath(m.path, self.repo)}:{n.lineno}: {nm} with non-constant name")
                if isinstance(n, (ast.Assign, ast.AugAssign)):
                    tgts = n.targets if isinstance(n, ast.Assign) else [n.target]
                    for t in tgts:
                        if isinstance(t, ast.Attribute):
                            q = self.resolve_name_expr(t.value, m)
                            if q and (q in self.modules or not q.startswith(PKG)) and q not in self.classes:
                                # assignment to another module's attribute (monkey patching); logger flags are allowed
                                if q in self.modules and q.endswith(".logger") and t.attr in ("verbose_logging", "debug_logging"):
                                    continue
                                if q in self.modules or (q.split(".")[0] in ("os", "builtins", "sys", "shutil", "hashlib", "xxhash")):
                                    bad.append(f"{os.path.relpath(m.path, self.repo)}:{n.lineno}: assignment to {norm(t)} (monkey patching)")
        return bad

    def analysed_summary(self):
        s = self.stats
        res = s["internal"] + s["external"]
        return {
            "modules": len(self.modules),
            "functions": len(self.funcs),
            "classes": len(self.classes),
            "call_sites": s["call_sites"],
            "call_sites_resolved": res,
            "call_sites_unknown_receiver": s["unknown_receiver"],
            "call_sites_unknown_receiver_matching_package_method_name": s["unknown_pkgname"],
            "source_digest": self.digest[:16],
        }
