"""Statement-level control-flow graph for the statement kinds used by ascmitc/mhl, with branch-labelled
edges, dominators, post-dominators and path queries that return printable witnesses."""
from __future__ import annotations

import ast
from typing import Dict, List, Optional, Set, Tuple

from .model import AnalysisError, norm, parent


class Node:
    __slots__ = ("id", "kind", "ast", "succ", "pred")

    def __init__(self, id, kind, node):
        self.id = id
        self.kind = kind  # entry | exit | raise | stmt | test | loop | with
        self.ast = node
        self.succ: List[Tuple["Node", Optional[str]]] = []
        self.pred: List[Tuple["Node", Optional[str]]] = []

    @property
    def line(self):
        return getattr(self.ast, "lineno", 0)

    def __repr__(self):
        return f"<{self.kind}#{self.id} {norm(self.ast)[:50] if self.ast is not None else ''}>"


class CFG:
    def __init__(self, fnode):
        self.fnode = fnode
        self.nodes: List[Node] = []
        self.by_ast: Dict[int, Node] = {}
        self.entry = self._new("entry", None)
        self.exit = self._new("exit", None)
        self.raise_exit = self._new("raise", None)
        out = self._seq(fnode.body, [(self.entry, None)], None, [])
        for a, l in out:
            self._edge(a, self.exit, l or "fallthrough")
        self._dom = None
        self._pdom = None

    # ---------------------------------------------------------------- construction
    def _new(self, kind, node):
        n = Node(len(self.nodes), kind, node)
        self.nodes.append(n)
        if node is not None:
            self.by_ast.setdefault(id(node), n)
        return n

    def _edge(self, a, b, label=None):
        a.succ.append((b, label))
        b.pred.append((a, label))

    def _join(self, preds, n):
        for a, l in preds:
            self._edge(a, n, l)

    def _cond(self, test, preds):
        if isinstance(test, ast.BoolOp) and isinstance(test.op, ast.And):
            t, fs = preds, []
            for v in test.values:
                t, f = self._cond(v, t)
                fs += f
            return t, fs
        if isinstance(test, ast.BoolOp) and isinstance(test.op, ast.Or):
            f, ts = preds, []
            for v in test.values:
                t, f = self._cond(v, f)
                ts += t
            return ts, f
        if isinstance(test, ast.UnaryOp) and isinstance(test.op, ast.Not):
            t, f = self._cond(test.operand, preds)
            return f, t
        n = self._new("test", test)
        self._join(preds, n)
        return [(n, "T")], [(n, "F")]

    def _seq(self, stmts, preds, loop, handlers):
        for s in stmts:
            if isinstance(s, ast.If):
                t, f = self._cond(s.test, preds)
                a = self._seq(s.body, t, loop, handlers)
                b = self._seq(s.orelse, f, loop, handlers) if s.orelse else f
                preds = a + b
            elif isinstance(s, (ast.For, ast.AsyncFor)):
                head = self._new("loop", s)
                self._join(preds, head)
                ctx = {"head": head, "breaks": []}
                body_out = self._seq(s.body, [(head, "iter")], ctx, handlers)
                for a, l in body_out:
                    self._edge(a, head, l or "back")
                f = [(head, "exhausted")]
                if s.orelse:
                    f = self._seq(s.orelse, f, loop, handlers)
                preds = f + ctx["breaks"]
            elif isinstance(s, ast.While):
                head = self._new("loop", s)
                self._join(preds, head)
                ctx = {"head": head, "breaks": []}
                t, f = self._cond(s.test, [(head, None)])
                body_out = self._seq(s.body, t, ctx, handlers)
                for a, l in body_out:
                    self._edge(a, head, l or "back")
                if s.orelse:
                    f = self._seq(s.orelse, f, loop, handlers)
                preds = f + ctx["breaks"]
            elif isinstance(s, ast.Return):
                n = self._new("stmt", s)
                self._join(preds, n)
                self._edge(n, self.exit, "return")
                preds = []
            elif isinstance(s, ast.Raise):
                n = self._new("stmt", s)
                self._join(preds, n)
                if handlers:
                    for h in handlers[-1]:
                        self._edge(n, h, "raise")
                else:
                    self._edge(n, self.raise_exit, "raise")
                preds = []
            elif isinstance(s, ast.Break):
                n = self._new("stmt", s)
                self._join(preds, n)
                if loop is None:
                    raise AnalysisError("break outside loop")
                loop["breaks"].append((n, "break"))
                preds = []
            elif isinstance(s, ast.Continue):
                n = self._new("stmt", s)
                self._join(preds, n)
                self._edge(n, loop["head"], "continue")
                preds = []
            elif isinstance(s, (ast.With, ast.AsyncWith)):
                n = self._new("with", s)
                self._join(preds, n)
                preds = self._seq(s.body, [(n, "enter")], loop, handlers)
            elif isinstance(s, ast.Try):
                hnodes = []
                for h in s.handlers:
                    hn = self._new("stmt", h)
                    hnodes.append(hn)
                first = len(self.nodes)
                body_out = self._seq(s.body, preds, loop, handlers + [hnodes])
                # conservative: every node created for the body may raise into every handler
                for bn in self.nodes[first:]:
                    for hn in hnodes:
                        if bn.kind in ("stmt", "test", "with", "loop"):
                            self._edge(bn, hn, "except")
                for a, l in preds:
                    for hn in hnodes:
                        self._edge(a, hn, "except")
                outs = list(body_out)
                if s.orelse:
                    outs = self._seq(s.orelse, outs, loop, handlers)
                for h, hn in zip(s.handlers, hnodes):
                    outs += self._seq(h.body, [(hn, None)], loop, handlers)
                if s.finalbody:
                    outs = self._seq(s.finalbody, outs, loop, handlers)
                preds = outs
            elif isinstance(s, (ast.FunctionDef, ast.AsyncFunctionDef, ast.ClassDef)):
                n = self._new("stmt", s)
                self._join(preds, n)
                preds = [(n, None)]
            elif isinstance(s, ast.Match):
                raise AnalysisError(f"match statement at line {s.lineno} is outside the CFG builder's statement inventory")
            else:
                n = self._new("stmt", s)
                self._join(preds, n)
                preds = [(n, None)]
        return preds

    # ---------------------------------------------------------------- lookup
    def node_for(self, a) -> Node:
        """CFG node whose statement/test contains the ast node `a`"""
        x = a
        while x is not None:
            n = self.by_ast.get(id(x))
            if n is not None:
                return n
            x = parent(x)
        raise AnalysisError(f"no CFG node for {norm(a)}")

    def stmts(self):
        return [n for n in self.nodes if n.kind in ("stmt", "test", "loop", "with")]

    # ---------------------------------------------------------------- dominance
    def _compute_dom(self, entry, succ_attr):
        nodes = self.nodes
        all_ids = set(range(len(nodes)))
        reach = set()
        work = [entry]
        while work:
            n = work.pop()
            if n.id in reach:
                continue
            reach.add(n.id)
            for m, _ in getattr(n, succ_attr):
                work.append(m)
        dom = {i: (set(reach) if i in reach else set()) for i in all_ids}
        dom[entry.id] = {entry.id}
        pred_attr = "pred" if succ_attr == "succ" else "succ"
        changed = True
        while changed:
            changed = False
            for n in nodes:
                if n.id not in reach or n is entry:
                    continue
                ps = [p.id for p, _ in getattr(n, pred_attr) if p.id in reach]
                new = set.intersection(*[dom[p] for p in ps]) if ps else set()
                new = new | {n.id}
                if new != dom[n.id]:
                    dom[n.id] = new
                    changed = True
        return dom

    def dominates(self, a: Node, b: Node) -> bool:
        """every path entry -> b passes a"""
        if self._dom is None:
            self._dom = self._compute_dom(self.entry, "succ")
        return a.id in self._dom[b.id]

    def postdominates(self, a: Node, b: Node) -> bool:
        """every path b -> normal exit passes a (paths ending in raise are ignored)"""
        if self._pdom is None:
            self._pdom = self._compute_dom(self.exit, "pred")
        return a.id in self._pdom[b.id]

    def control_deps(self, node: Node, transitive=True, through_loops=True) -> List[Tuple[Node, str]]:
        """tests (and loop heads) on which `node` is control dependent, with the branch label that leads to it.
        through_loops=False: the transitive closure does not continue through loop heads (conditions of the same iteration only)"""
        out, seen, work = [], set(), [node]
        while work:
            n = work.pop()
            for t in self.nodes:
                if t.kind not in ("test", "loop") or t is n:
                    continue
                for s, l in t.succ:
                    if (s is n or self.postdominates(n, s)) and not all((s2 is n or self.postdominates(n, s2)) for s2, _ in t.succ):
                        if (t.id, l) not in seen:
                            seen.add((t.id, l))
                            out.append((t, l))
                            if transitive and (through_loops or t.kind != "loop"):
                                work.append(t)
        return out

    def necessary_branches(self, node: Node) -> List[Tuple[Node, str]]:
        """branch edges (test, label) that every path from the entry to `node` takes at least once: the conjunction of conditions under
        which the node executes (control_deps gives the union over alternative routes, e.g. the fall-through of an earlier `if a and b: raise`)"""
        out = []
        for t in self.nodes:
            if t.kind != "test" or t is node:
                continue
            for s, l in t.succ:
                reach = self.reachable_from([self.entry], follow=lambda n, m, lab, t=t, s=s, l=l: not (n is t and m is s and lab == l))
                if node.id not in reach:
                    out.append((t, l))
        return out

    # ---------------------------------------------------------------- reachability / paths
    def reachable_from(self, starts, avoid: Set[int] = frozenset(), follow=None) -> Set[int]:
        seen = set()
        work = list(starts)
        while work:
            n = work.pop()
            if n.id in seen or n.id in avoid:
                continue
            seen.add(n.id)
            for m, l in n.succ:
                if follow is None or follow(n, m, l):
                    work.append(m)
        return seen

    def every_path_passes(self, a: Node, through: Set[int], targets=None) -> Tuple[bool, Optional[List[Node]]]:
        """True iff every path from a to (targets or normal exit) passes a node in `through`;
        otherwise a witness path avoiding them"""
        targets = targets or {self.exit.id}
        path = self.find_path(a, targets, avoid=through)
        return (path is None), path

    def find_path(self, a: Node, targets: Set[int], avoid: Set[int] = frozenset(), first_edges=None) -> Optional[List[Node]]:
        """shortest path (BFS) from a to any node in targets not passing `avoid` (a itself may be in avoid)"""
        from collections import deque

        prev = {a.id: None}
        dq = deque([a])
        starts = first_edges
        while dq:
            n = dq.popleft()
            succs = n.succ
            if n is a and starts is not None:
                succs = starts
            for m, l in succs:
                if m.id in prev and not (m is a and m.id in targets):
                    continue
                if m.id in targets:
                    out = [m, n]
                    x = prev[n.id]
                    while x is not None:
                        out.append(self.nodes[x])
                        x = prev[x]
                    return list(reversed(out))
                if m.id in avoid:
                    continue
                prev[m.id] = n.id
                dq.append(m)
        return None

    def paths(self, start_edges, stop: Set[int], limit=4000):
        """enumerate simple paths from the given dangling edges until a node in `stop` or an exit.
        yields (end_node, [(test_ast, label) …], [nodes…])"""
        out = []
        count = [0]

        def dfs(n, conds, seen, trail):
            count[0] += 1
            if count[0] > limit:
                raise AnalysisError("path enumeration limit exceeded")
            if n.id in stop or n.kind in ("exit", "raise"):
                out.append((n, conds, trail + [n]))
                return
            if n.id in seen:
                return
            for m, l in n.succ:
                c = conds
                if n.kind == "test":
                    c = conds + [(n.ast, l)]
                elif n.kind == "loop" and l in ("iter", "exhausted"):
                    c = conds + [(n.ast, l)]
                dfs(m, c, seen | {n.id}, trail + [n])

        for m, l, c0 in start_edges:
            dfs(m, list(c0), set(), [])
        return out

    def loop_body_ids(self, head: Node) -> Set[int]:
        """nodes that belong syntactically to the body of the loop statement of `head` (incl. its test nodes
        for while loops), i.e. one iteration's worth of nodes; raise/return statements inside the body included"""
        body = set()
        stmt = head.ast
        inside = set()
        for part in stmt.body:
            for x in ast.walk(part):
                inside.add(id(x))
        if isinstance(stmt, ast.While):
            for x in ast.walk(stmt.test):
                inside.add(id(x))
        for n in self.nodes:
            if n.ast is not None and id(n.ast) in inside:
                body.add(n.id)
        return body

    def _within(self, n: Node, head: Node) -> bool:
        # syntactic containment: the ast of n lies inside the loop statement
        x = n.ast
        while x is not None:
            if x is head.ast:
                return True
            x = parent(x)
        return False

    def fmt_path(self, path: List[Node], rel="") -> str:
        parts = []
        for n in path:
            if n.kind in ("entry",):
                continue
            if n.kind == "exit":
                parts.append("EXIT")
            elif n.kind == "raise":
                parts.append("RAISE")
            else:
                parts.append(f"l.{n.line}:{norm(n.ast)[:60] if n.kind != 'loop' else 'loop ' + norm(n.ast.target if isinstance(n.ast, ast.For) else n.ast.test)[:40]}")
        return " -> ".join(parts)


_cache: Dict[int, CFG] = {}


def cfg_of(func) -> CFG:
    k = id(func.node)
    if k not in _cache:
        _cache[k] = CFG(func.node)
    return _cache[k]
