"""A small three-valued evaluator for *decision helpers*: straight-line / branching functions that map a few boolean
facts (atoms) to a constant verdict. Nothing is executed: the function's statements are interpreted over the domain
{known Python constant, UNKNOWN}; a test whose value is UNKNOWN forks the state. Shapes the evaluator does not model
(try, loops that return, stores it cannot follow) raise AnalysisError, so a caller never gets a verdict from a guess."""
from __future__ import annotations

import ast
from typing import Callable, Dict, List, Optional, Tuple

from .model import AnalysisError, norm


class _Unknown:
    def __repr__(self):
        return "UNKNOWN"


UNKNOWN = _Unknown()
MAX_STATES = 512


class Val:
    """wrapper with which an atom hook returns an arbitrary abstract value (including None); a bare bool is also accepted"""

    def __init__(self, v):
        self.v = v


class Obj:
    """some object that is not None (truthy), e.g. 'a record was found'"""

    def __repr__(self):
        return "<object>"

    def __bool__(self):
        return True


OBJ = Obj()


def truth(v):
    """True / False / None (unknown)"""
    if v is UNKNOWN:
        return None
    return bool(v)


class Evaluator:
    def __init__(self, atom: Optional[Callable[[ast.AST, dict], Optional[bool]]] = None, where: str = "", value_boolops: bool = False):
        self.atom = atom or (lambda e, env: None)
        self.where = where
        self.states = 0
        # value_boolops: `a or b` / `a and b` evaluate to the operand Python would return (needed where the *value* is stored, e.g. `int(x) or None`)
        self.value_boolops = value_boolops

    # ------------------------------------------------------------------ expressions
    def eval(self, e, env):
        a = self.atom(e, env)
        if isinstance(a, Val):
            return a.v
        if a is not None:
            return a
        if isinstance(e, ast.Constant):
            return e.value
        if isinstance(e, ast.Name):
            return env.get(e.id, UNKNOWN)
        if isinstance(e, ast.UnaryOp):
            v = self.eval(e.operand, env)
            if isinstance(e.op, ast.Not):
                t = truth(v)
                return UNKNOWN if t is None else (not t)
            if isinstance(e.op, ast.USub) and isinstance(v, (int, float)) and not isinstance(v, bool):
                return -v
            return UNKNOWN
        if isinstance(e, ast.BoolOp):
            vals = [self.eval(x, env) for x in e.values]
            ts = [truth(v) for v in vals]
            if self.value_boolops:
                stop = isinstance(e.op, ast.Or)
                for v, t in zip(vals, ts):
                    if t is None:
                        return UNKNOWN
                    if t is stop:
                        return v
                return vals[-1]
            if isinstance(e.op, ast.And):
                if any(t is False for t in ts):
                    return False
                return True if all(t is True for t in ts) else UNKNOWN
            if any(t is True for t in ts):
                return True
            return False if all(t is False for t in ts) else UNKNOWN
        if isinstance(e, ast.Compare):
            left = e.left
            res = True
            for op, right in zip(e.ops, e.comparators):
                r = self._cmp(op, left, right, env)
                if r is False:
                    return False
                if r is None:
                    res = UNKNOWN
                left = right
            return res
        if isinstance(e, ast.BinOp):
            l, r = self.eval(e.left, env), self.eval(e.right, env)
            if l is UNKNOWN or r is UNKNOWN:
                return UNKNOWN
            try:
                if isinstance(e.op, ast.Add):
                    return l + r
                if isinstance(e.op, ast.Sub):
                    return l - r
                if isinstance(e.op, ast.Mult):
                    return l * r
                if isinstance(e.op, ast.FloorDiv) and isinstance(l, int) and isinstance(r, int) and r != 0:
                    return l // r
                if isinstance(e.op, ast.Mod) and isinstance(l, int) and isinstance(r, int) and r != 0:
                    return l % r
            except Exception:
                return UNKNOWN
            return UNKNOWN
        if isinstance(e, ast.IfExp):
            t = truth(self.eval(e.test, env))
            if t is None:
                a, b = self.eval(e.body, env), self.eval(e.orelse, env)
                return a if (a is not UNKNOWN and b is not UNKNOWN and a == b and type(a) is type(b)) else UNKNOWN
            return self.eval(e.body if t else e.orelse, env)
        if isinstance(e, ast.Call) and isinstance(e.func, ast.Name) and e.func.id == "len" and len(e.args) == 1 and not e.keywords:
            v = self.eval(e.args[0], env)
            return len(v) if isinstance(v, (str, bytes, list, tuple, dict, set)) else UNKNOWN
        if isinstance(e, ast.Attribute) and norm(e) in ("os.extsep", "os.path.extsep"):
            return "."
        if isinstance(e, ast.Attribute) and norm(e) in ("os.sep", "os.path.sep"):
            return "/"
        if isinstance(e, ast.Call) and norm(e.func) in ("os.path.splitext", "os.path.basename", "os.path.dirname", "os.path.split") and len(e.args) == 1 and not e.keywords:
            v = self.eval(e.args[0], env)
            if isinstance(v, str):
                import posixpath

                return getattr(posixpath, norm(e.func).split(".")[-1])(v)
            return UNKNOWN
        if isinstance(e, ast.Call) and norm(e.func) in ("os.path.join", "os.path.normpath") and e.args and not e.keywords:
            vs = [self.eval(a, env) for a in e.args]
            if all(isinstance(v, str) for v in vs):
                import posixpath

                return getattr(posixpath, norm(e.func).split(".")[-1])(*vs)
            return UNKNOWN
        if isinstance(e, ast.Call) and isinstance(e.func, ast.Attribute) and e.func.attr in ("partition", "rpartition", "split", "rsplit", "removesuffix", "removeprefix", "count", "find", "rfind", "index", "isdigit", "replace") and not e.keywords:
            recv = self.eval(e.func.value, env)
            args = [self.eval(a, env) for a in e.args]
            if isinstance(recv, str) and all(isinstance(a, (str, int)) and not isinstance(a, bool) for a in args):
                try:
                    r = getattr(recv, e.func.attr)(*args)
                    return tuple(r) if isinstance(r, list) else r
                except Exception:
                    return UNKNOWN
            return UNKNOWN
        if isinstance(e, ast.Call) and isinstance(e.func, ast.Attribute) and e.func.attr in ("startswith", "endswith", "lower", "upper", "strip", "lstrip", "rstrip") and not e.keywords:
            recv = self.eval(e.func.value, env)
            args = [self.eval(a, env) for a in e.args]
            if isinstance(recv, str) and all(isinstance(a, (str, tuple)) for a in args) and len(args) <= 1:
                try:
                    return getattr(recv, e.func.attr)(*args)
                except Exception:
                    return UNKNOWN
            return UNKNOWN
        if isinstance(e, ast.Subscript):
            v = self.eval(e.value, env)
            if isinstance(v, (str, bytes, list, tuple)):
                sl = e.slice
                try:
                    if isinstance(sl, ast.Slice):
                        parts = [None if x is None else self.eval(x, env) for x in (sl.lower, sl.upper, sl.step)]
                        if any(x is UNKNOWN for x in parts):
                            return UNKNOWN
                        return v[slice(*parts)]
                    i = self.eval(sl, env)
                    if isinstance(i, int) and not isinstance(i, bool):
                        return v[i]
                except Exception:
                    return UNKNOWN
            return UNKNOWN
        if isinstance(e, ast.Tuple):
            vals = [self.eval(x, env) for x in e.elts]
            return UNKNOWN if any(v is UNKNOWN for v in vals) else tuple(vals)
        if isinstance(e, ast.Call) and isinstance(e.func, ast.Name) and e.func.id in ("bool", "int") and len(e.args) == 1 and not e.keywords:
            v = self.eval(e.args[0], env)
            if v is UNKNOWN:
                return UNKNOWN
            try:
                return bool(v) if e.func.id == "bool" else int(v)
            except Exception:
                return UNKNOWN
        return UNKNOWN

    def _cmp(self, op, l, r, env) -> Optional[bool]:
        # (a, b) == (c, d): element-wise
        if isinstance(op, (ast.Eq, ast.NotEq)) and isinstance(l, ast.Tuple) and isinstance(r, ast.Tuple) and len(l.elts) == len(r.elts):
            parts = [self._cmp(ast.Eq(), a, b, env) for a, b in zip(l.elts, r.elts)]
            if any(x is False for x in parts):
                eq = False
            elif all(x is True for x in parts):
                eq = True
            else:
                return None
            return eq if isinstance(op, ast.Eq) else not eq
        fake = ast.Compare(left=l, ops=[op], comparators=[r])
        a = self.atom(fake, env)
        if isinstance(a, Val):
            return None if a.v is UNKNOWN else bool(a.v)
        if a is not None:
            return a
        lv, rv = self.eval(l, env), self.eval(r, env)
        if lv is UNKNOWN or rv is UNKNOWN:
            return None
        try:
            if isinstance(op, ast.Eq):
                return lv == rv
            if isinstance(op, ast.NotEq):
                return lv != rv
            if isinstance(op, ast.Is):
                return lv is rv if (lv is None or rv is None or isinstance(lv, (bool, Obj)) or isinstance(rv, (bool, Obj))) else lv == rv
            if isinstance(op, ast.IsNot):
                return lv is not rv if (lv is None or rv is None or isinstance(lv, (bool, Obj)) or isinstance(rv, (bool, Obj))) else lv != rv
            if isinstance(op, ast.Lt):
                return lv < rv
            if isinstance(op, ast.LtE):
                return lv <= rv
            if isinstance(op, ast.Gt):
                return lv > rv
            if isinstance(op, ast.GtE):
                return lv >= rv
            if isinstance(op, ast.In):
                return lv in rv
            if isinstance(op, ast.NotIn):
                return lv not in rv
        except Exception:
            return None
        return None

    # ------------------------------------------------------------------ statements
    def run(self, stmts, env) -> List[Tuple[dict, Optional[tuple]]]:
        """[(env, outcome)] with outcome None (fell through) | ("return", value) | ("raise",)"""
        states = [(dict(env), None)]
        for s in stmts:
            nxt = []
            for env_, out in states:
                if out is not None:
                    nxt.append((env_, out))
                    continue
                nxt.extend(self.step(s, env_))
            states = nxt
            self.states = max(self.states, len(states))
            if len(states) > MAX_STATES:
                raise AnalysisError(f"{self.where}: decision helper has more than {MAX_STATES} abstract states")
        return states

    def step(self, s, env):
        if isinstance(s, (ast.Expr, ast.Pass, ast.Import, ast.ImportFrom, ast.Global, ast.Nonlocal, ast.Assert, ast.Delete)):
            return [(env, None)]
        if isinstance(s, ast.Assign):
            v = self.eval(s.value, env)
            for t in s.targets:
                self._store(t, v, env)
            return [(env, None)]
        if isinstance(s, ast.AnnAssign):
            if s.value is not None:
                self._store(s.target, self.eval(s.value, env), env)
            return [(env, None)]
        if isinstance(s, ast.AugAssign):
            if isinstance(s.target, ast.Name):
                cur = env.get(s.target.id, UNKNOWN)
                v = self.eval(s.value, env)
                if cur is UNKNOWN or v is UNKNOWN:
                    env[s.target.id] = UNKNOWN
                else:
                    try:
                        env[s.target.id] = {ast.Add: lambda a, b: a + b, ast.Sub: lambda a, b: a - b, ast.Mult: lambda a, b: a * b}[type(s.op)](cur, v)
                    except Exception:
                        env[s.target.id] = UNKNOWN
            return [(env, None)]
        if isinstance(s, ast.Return):
            return [(env, ("return", None if s.value is None else self.eval(s.value, env)))]
        if isinstance(s, ast.Raise):
            return [(env, ("raise",))]
        if isinstance(s, ast.Continue):
            return [(env, ("continue",))]
        if isinstance(s, ast.Break):
            return [(env, ("break",))]
        if isinstance(s, ast.If):
            t = truth(self.eval(s.test, env))
            out = []
            if t is not False:
                out += self.run(s.body, env)
            if t is not True:
                out += self.run(s.orelse, env)
            return out
        if isinstance(s, ast.With):
            return self.run(s.body, env)
        if isinstance(s, (ast.For, ast.While)):
            if any(isinstance(x, ast.Return) for st in s.body + s.orelse for x in ast.walk(st)):
                raise AnalysisError(f"{self.where}: line {s.lineno}: a loop that returns is not modelled by the decision-table evaluator")
            for st in s.body + s.orelse:
                for x in ast.walk(st):
                    if isinstance(x, ast.Name) and isinstance(x.ctx, ast.Store):
                        env[x.id] = UNKNOWN
            if isinstance(s, ast.For):
                for x in ast.walk(s.target):
                    if isinstance(x, ast.Name):
                        env[x.id] = UNKNOWN
            return [(env, None)]
        raise AnalysisError(f"{self.where}: line {getattr(s, 'lineno', '?')}: statement `{type(s).__name__}` is not modelled by the decision-table evaluator")

    def _store(self, t, v, env):
        if isinstance(t, ast.Name):
            env[t.id] = v
        elif isinstance(t, (ast.Tuple, ast.List)):
            if isinstance(v, (tuple, list)) and len(v) == len(t.elts) and all(isinstance(x, ast.Name) for x in t.elts):
                for x, xv in zip(t.elts, v):
                    env[x.id] = xv
                return
            for x in ast.walk(t):
                if isinstance(x, ast.Name):
                    env[x.id] = UNKNOWN


def returns_of(func_node, atom, env=None, where="") -> List:
    """all values the function can return under the atom assignment (UNKNOWN if not constant); falling off the end = None"""
    ev = Evaluator(atom, where)
    outs = ev.run(func_node.body, env or {})
    vals = []
    for env_, out in outs:
        if out is None:
            vals.append(None)
        elif out[0] == "return":
            vals.append(out[1])
    return vals
