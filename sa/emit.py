"""XML emission grammar: abstract interpretation of the lxml-builder idiom used by the two writer modules.

For every builder function the result is a set of alternative element templates (Elem); for the two document
writers (raw constant tag strings + element writes) the whole document template. Nothing is executed."""
from __future__ import annotations

import ast
import re
from typing import Dict, List, Optional, Tuple

from .model import AnalysisError, Func, Program, norm, parent, walk_no_nested


class Guard:
    """condition under which something is emitted: (test ast, polarity, func)"""

    def __init__(self, test, polarity, func):
        self.test, self.polarity, self.func = test, polarity, func

    def text(self):
        return ("" if self.polarity else "not ") + norm(self.test)

    def __repr__(self):
        return self.text()


class Attr:
    def __init__(self, name, value, func, guards, node):
        self.name, self.value, self.func, self.guards, self.node = name, value, func, guards, node

    @property
    def optional(self):
        return bool(self.guards)


class Elem:
    def __init__(self, tag, func, node, ctx):
        self.tag = tag  # str or ("dyn", expr_ast)
        self.func = func
        self.node = node
        self.ctx = list(ctx)
        self.attrs: List[Attr] = []
        self.text = None  # (value_ast, func, guards) or None
        self.children: list = []
        self.raw_attrs: Dict[str, str] = {}  # attributes from a constant raw open tag

    def tagname(self):
        return self.tag if isinstance(self.tag, str) else "{" + norm(self.tag[1]) + "}"

    def clone_shallow_tag(self, tag):
        self.tag = tag

    def show(self, ind=0):
        a = " ".join(f"@{x.name}{'?' if x.optional else ''}" for x in self.attrs)
        a += "".join(f" @{k}={v!r}" for k, v in self.raw_attrs.items())
        t = f" text={norm(self.text[0])}" if self.text else ""
        out = " " * ind + f"<{self.tagname()}> {a}{t}\n"
        for k in self.children:
            out += show_item(k, ind + 2)
        return out


class Opt:
    def __init__(self, guard: Guard, items):
        self.guard, self.items = guard, items


class Rep:
    def __init__(self, loop: ast.For, func, items):
        self.loop, self.func, self.items = loop, func, items


class Alt:
    def __init__(self, branches):
        self.branches = branches  # list of list of items


class Tok:
    def __init__(self, kind, tag, attrs, func, node):
        self.kind, self.tag, self.attrs, self.func, self.node = kind, tag, attrs, func, node


class RawDynamic:
    """a non-constant string written raw into the document (bypasses the escaping builder)"""

    def __init__(self, func, node):
        self.func, self.node = func, node


def show_item(k, ind=0):
    if isinstance(k, Elem):
        return k.show(ind)
    if isinstance(k, Opt):
        return " " * ind + f"OPT[{k.guard.text()}]\n" + "".join(show_item(x, ind + 2) for x in k.items)
    if isinstance(k, Rep):
        return " " * ind + f"REP[for {norm(k.loop.target)} in {norm(k.loop.iter)}]\n" + "".join(show_item(x, ind + 2) for x in k.items)
    if isinstance(k, Alt):
        out = ""
        for i, b in enumerate(k.branches):
            out += " " * ind + f"ALT#{i}\n" + "".join(show_item(x, ind + 2) for x in b)
        return out
    if isinstance(k, Tok):
        return " " * ind + f"TOK {k.kind} {k.tag}\n"
    if isinstance(k, RawDynamic):
        return " " * ind + f"RAW-DYNAMIC {norm(k.node)}\n"
    return " " * ind + repr(k) + "\n"


def walk_elems(item):
    if isinstance(item, Elem):
        yield item
        for c in item.children:
            yield from walk_elems(c)
    elif isinstance(item, (Opt, Rep)):
        for c in item.items:
            yield from walk_elems(c)
    elif isinstance(item, Alt):
        for b in item.branches:
            for c in b:
                yield from walk_elems(c)


class Emitter:
    def __init__(self, program: Program):
        self.p = program
        self._building = set()

    # ------------------------------------------------------------------ helpers
    def _is_E(self, fn, func: Func):
        """E.tag(...)  or  E(tagexpr, ...) where E resolves to lxml.builder.E"""
        m = func.module
        if isinstance(fn, ast.Attribute) and isinstance(fn.value, ast.Name) and m.imports.get(fn.value.id) == "lxml.builder.E":
            return "attr"
        if isinstance(fn, ast.Name) and m.imports.get(fn.id) == "lxml.builder.E":
            return "call"
        return None

    def is_builder(self, f: Func, _depth=0) -> bool:
        if f.module.imports.get("E") != "lxml.builder.E" and "lxml.builder.E" not in f.module.imports.values():
            return False
        has_e = any(isinstance(n, ast.Call) and self._is_E(n.func, f) for n in walk_no_nested(f.node))
        if has_e:
            return True
        if _depth > 3:
            return False
        for call, tg in self.p.calls.get(f.qual, []):
            for t in tg:
                if t in self.p.funcs and t != f.qual and self.p.funcs[t].module is f.module and self.is_builder(self.p.funcs[t], _depth + 1):
                    # only when the callee's result can be this function's result
                    if any(isinstance(n, ast.Return) for n in walk_no_nested(f.node)):
                        return True
        return False

    # ------------------------------------------------------------------ builder functions
    def build(self, f: Func, consts: Optional[dict] = None) -> List[Elem]:
        """alternative element templates returned by builder function f (consts: constant values of parameters)"""
        key = (f.qual, tuple(sorted((consts or {}).items())))
        if key in self._building:
            raise AnalysisError(f"recursive element builder {f.qual}")
        self._building.add(key)
        try:
            st = _State(self, f, dict(f_param_consts(self.p, f), **(consts or {})))
            st.block(f.node.body, [])
            return st.returns
        finally:
            self._building.discard(key)

    # ------------------------------------------------------------------ document writers
    def writer_roles(self):
        """(string_writers, element_writers): helper functions whose parameter reaches file.write raw /
        through etree.tostring. value = parameter name"""
        sw, ew = {}, {}
        p = self.p
        for fq, f in p.funcs.items():
            for n in walk_no_nested(f.node):
                if isinstance(n, ast.Call) and isinstance(n.func, ast.Attribute) and n.func.attr == "write" and n.args:
                    serialised = set()  # names that occur only as the element handed to etree.tostring(...)

                    def _names(e):
                        out = set()
                        ser = {id(x) for c in ast.walk(e) if isinstance(c, ast.Call) and norm(c.func).endswith("etree.tostring") and c.args for x in ast.walk(c.args[0])}
                        for x in ast.walk(e):
                            if isinstance(x, ast.Name):
                                if id(x) in ser:
                                    serialised.add(x.id)
                                else:
                                    out.add(x.id)
                        return out

                    names = _names(n.args[0])
                    # follow one level of local assignment (result = textwrap.indent(xml_string, indent))
                    for m2 in walk_no_nested(f.node):
                        if isinstance(m2, ast.Assign) and any(isinstance(t, ast.Name) and t.id in names for t in m2.targets):
                            if isinstance(m2.value, ast.Call) and norm(m2.value.func).endswith("indent") and m2.value.args:
                                names |= _names(m2.value.args[0])
                            else:
                                names |= _names(m2.value)
                    for pn in f.params:
                        if pn in names and pn not in ("file", "indent") and f.params.index(pn) > 0:
                            sw[fq] = pn
                    # an element writer that serialises and writes by itself: its parameter reaches the file through etree.tostring only
                    for pn in f.params:
                        if pn in serialised and pn not in names and fq not in sw:
                            ew[fq] = pn
        for fq, f in p.funcs.items():
            for n in walk_no_nested(f.node):
                if isinstance(n, ast.Call) and norm(n.func).endswith("etree.tostring") and n.args and isinstance(n.args[0], ast.Name) and n.args[0].id in f.params:
                    if any(t in sw for _, tg in p.calls[fq] for t in tg):
                        ew[fq] = n.args[0].id
        return sw, ew

    def writer_reach(self, sw, ew):
        """repo functions - other than the recognised string / element writers themselves - from which a write to the document is
        reachable: a call to one of them inside a document writer emits markup the template would otherwise silently miss"""
        if getattr(self, "_writer_reach", None) is None:
            p = self.p
            direct = set(sw) | set(ew)
            for fq, f in p.funcs.items():
                for call, tg in p.calls[fq]:
                    if isinstance(call.func, ast.Attribute) and call.func.attr in ("write", "writelines") and any(t.startswith(("extm:open", "unk:write")) for t in tg):
                        direct.add(fq)
            out = set()
            for fq in p.funcs:
                if fq in sw or fq in ew:
                    continue
                if fq in direct or any(q in direct for q in p.reachable([fq])):
                    out.add(fq)
            self._writer_reach = out
        return self._writer_reach

    def document(self, f: Func) -> List[Elem]:
        """document template(s) written by writer function f"""
        sw, ew = self.writer_roles()
        st = _State(self, f, {})
        items = st.doc_block(f.node.body, [], sw, ew)
        roots = fold_tokens(items, f)
        elems = [r for r in roots if isinstance(r, Elem)]
        others = [r for r in roots if not isinstance(r, Elem)]
        if len(elems) != 1 or any(not isinstance(o, RawDynamic) for o in others):
            raise AnalysisError(f"{f.qual}: document does not fold to exactly one root element ({len(elems)} roots)")
        self.raw_dynamic = [o for o in others if isinstance(o, RawDynamic)] + [x for x in st.raw_dynamic]
        return elems


def f_param_consts(p: Program, f: Func) -> dict:
    out = {}
    for pn, d in f.param_defaults().items():
        if isinstance(d, ast.Constant):
            out[pn] = d.value
    return out


class _Alts:
    def __init__(self, elems):
        self.elems = elems


class _ElemList:
    """a Python list of elements under construction (items may be Opt/Rep wrapped relative to its creation context)"""

    def __init__(self, items, ctx):
        self.items = list(items)
        self.ctx = list(ctx)


class _State:
    def __init__(self, em: Emitter, f: Func, consts: dict):
        self.em, self.f, self.consts = em, f, consts
        self.env: Dict[str, object] = {}
        self.returns: List[Elem] = []
        self.raw_dynamic: list = []

    # -------------------------------------------------------------- expression evaluation
    def ev(self, e, ctx):
        em, f = self.em, self.f
        if isinstance(e, ast.Name):
            return self.env.get(e.id)
        if isinstance(e, ast.IfExp):
            a, b = self.ev(e.body, ctx), self.ev(e.orelse, ctx)
            if isinstance(a, (Elem, _Alts)) and isinstance(b, (Elem, _Alts)):
                return _Alts(self._each(a) + self._each(b))
            if a is None and b is None:
                return None
            if (a is None and getattr(b, "tentative", False) and not b.items) or (b is None and getattr(a, "tentative", False) and not a.items):
                return None  # `x.get_list() if x else []`: an ordinary list
            raise AnalysisError(f"{f.loc(e)}: conditional expression mixes an element with something else")
        if isinstance(e, (ast.ListComp, ast.GeneratorExp)) and len(e.generators) == 1 and not e.generators[0].is_async:
            # `[E.x(v) for v in vs if c]`: one element per item - the loop form `for v in vs: (if c:) children.append(E.x(v))`
            gen = e.generators[0]
            loop = ast.For(target=gen.target, iter=gen.iter, body=[], orelse=[])
            ast.copy_location(loop, e)
            try:
                loop._parent = getattr(e, "_parent", None)  # type: ignore[attr-defined]
            except Exception:
                pass
            inner = ctx + [("for", loop, None)]
            for cond in gen.ifs:
                fake_if = ast.If(test=cond, body=[], orelse=[])
                ast.copy_location(fake_if, cond)
                inner = inner + [("if", fake_if, True)]
            item = self.ev(e.elt, inner)
            if isinstance(item, (Elem, _Alts)):
                it = item if isinstance(item, Elem) else Alt([[y] for y in item.elems])
                return _ElemList([self._wrap(it, inner[len(ctx):])], ctx)
            return None
        if isinstance(e, ast.List) and not e.elts:
            # `children = []` ... `children.append(E.x(..))` ... `E.tag(*children)`: tentatively a list of elements (dropped again if anything else is appended)
            lst0 = _ElemList([], ctx)
            lst0.tentative = True
            return lst0
        if isinstance(e, (ast.List, ast.Tuple)) and e.elts:
            vals = [self.ev(x, ctx) for x in e.elts]
            if all(isinstance(v, (Elem, _Alts)) for v in vals):
                return _ElemList([v if isinstance(v, Elem) else Alt([[y] for y in v.elems]) for v in vals], ctx)
            return None
        if isinstance(e, ast.Call):
            kind = em._is_E(e.func, f)
            if kind:
                if kind == "attr":
                    el = Elem(e.func.attr, f, e, ctx)
                    args = e.args
                else:
                    if not e.args:
                        raise AnalysisError(f"{f.loc(e)}: E() without a tag")
                    tagv = em.p.fold(e.args[0], f)
                    el = Elem(tagv if isinstance(tagv, str) else ("dyn", e.args[0]), f, e, ctx)
                    args = e.args[1:]
                for a in args:
                    if isinstance(a, ast.Starred):
                        v = self.ev(a.value, ctx)
                        if not isinstance(v, _ElemList):
                            raise AnalysisError(f"{f.loc(e)}: *{norm(a.value)[:40]} in E(...) is not a list of elements built here")
                        el.children += list(v.items)
                        continue
                    v = self.ev(a, ctx)
                    if isinstance(v, Elem):
                        el.children.append(v)
                    elif isinstance(v, _Alts):
                        el.children.append(Alt([[x] for x in v.elems]))
                    elif isinstance(a, ast.Dict):
                        for k, vv in zip(a.keys, a.values):
                            kn = em.p.fold(k, f)
                            if not isinstance(kn, str):
                                raise AnalysisError(f"{f.loc(a)}: non-constant attribute name in E(...)")
                            el.attrs.append(Attr(kn, vv, f, [], a))
                    else:
                        if el.text is not None:
                            raise AnalysisError(f"{f.loc(e)}: two text arguments in one E(...) call")
                        el.text = (a, f, [])
                for kw in e.keywords:
                    if kw.arg is None:
                        raise AnalysisError(f"{f.loc(e)}: **kwargs in E(...)")
                    el.attrs.append(Attr(kw.arg, kw.value, f, [], kw.value))
                return el
            # call of another builder function
            tg = [t for t in em.p.resolve_call(e, f) if t in em.p.funcs]
            if len(tg) == 1 and em.is_builder(em.p.funcs[tg[0]]):
                g = em.p.funcs[tg[0]]
                consts = {}
                binding = em.p.bind_args(g, e)
                for pn, a in binding.items():
                    if a is not None and a in list(e.args) + [k.value for k in e.keywords]:
                        v = em.p.fold(a, f)
                        if isinstance(a, ast.Constant):
                            consts[pn] = a.value
                res = em.build(g, consts)
                lists = [r for r in res if isinstance(r, _ElemList)]
                if lists:
                    if len(res) != 1:
                        raise AnalysisError(f"{f.loc(e)}: builder {g.qual} returns element lists on several paths")
                    lists[0].ctx = list(ctx)
                    return lists[0]
                for r in res:
                    _rebase(r, ctx)
                if len(res) == 1:
                    return res[0]
                if res:
                    return _Alts(res)
            # a call through a name bound to one of several builders (build = _a if c else _b; build(x)): any of them
            if len(tg) > 1 and all(em.is_builder(em.p.funcs[t]) for t in tg):
                allres = []
                for t in tg:
                    g = em.p.funcs[t]
                    res = em.build(g, {})
                    if any(isinstance(r, _ElemList) for r in res):
                        raise AnalysisError(f"{f.loc(e)}: builder {g.qual} (one of several alternatives) returns an element list")
                    for r in res:
                        _rebase(r, ctx)
                    allres += res
                if allres:
                    return allres[0] if len(allres) == 1 else _Alts(allres)
        return None

    # -------------------------------------------------------------- builder statements
    def _rel(self, el: Elem, ctx):
        i = 0
        while i < len(el.ctx) and i < len(ctx) and el.ctx[i][1] is ctx[i][1] and el.ctx[i][2] == ctx[i][2]:
            i += 1
        return ctx[i:]

    def _wrap(self, item, rel):
        for kind, node, pol in reversed(rel):
            if kind == "if":
                item = Opt(Guard(node.test, pol, self.f), [item])
            else:
                item = Rep(node, self.f, [item])
        return item

    def _targets_elem(self, expr):
        if isinstance(expr, ast.Name) and isinstance(self.env.get(expr.id), (Elem, _Alts)):
            return self.env[expr.id]
        return None

    def _each(self, v):
        return v.elems if isinstance(v, _Alts) else [v]

    def block(self, stmts, ctx):
        f = self.f
        for s in stmts:
            if isinstance(s, ast.Assign) and len(s.targets) == 1:
                t = s.targets[0]
                if isinstance(t, ast.Name):
                    v = self.ev(s.value, ctx)
                    if isinstance(v, (Elem, _Alts, _ElemList)):
                        self.env[t.id] = v
                    else:
                        self.env.pop(t.id, None)
                    continue
                if isinstance(t, ast.Subscript) and isinstance(t.value, ast.Attribute) and t.value.attr == "attrib":
                    el = self._targets_elem(t.value.value)
                    if el is not None:
                        name = self.em.p.fold(t.slice, f)
                        if not isinstance(name, str):
                            raise AnalysisError(f"{f.loc(s)}: non-constant attribute name")
                        for x in self._each(el):
                            rel = self._rel(x, ctx)
                            if any(k == "for" for k, _, _ in rel):
                                raise AnalysisError(f"{f.loc(s)}: attribute set inside a loop on an element created outside it")
                            x.attrs.append(Attr(name, s.value, f, [Guard(n.test, pol, f) for k, n, pol in rel], s))
                        continue
                if isinstance(t, ast.Attribute) and t.attr == "text":
                    el = self._targets_elem(t.value)
                    if el is not None:
                        for x in self._each(el):
                            rel = self._rel(x, ctx)
                            x.text = (s.value, f, [Guard(n.test, pol, f) for k, n, pol in rel])
                        continue
                if isinstance(t, ast.Attribute) and t.attr == "tag":
                    el = self._targets_elem(t.value)
                    if el is not None:
                        tagv = self.em.p.fold(s.value, f)
                        if not isinstance(tagv, str):
                            raise AnalysisError(f"{f.loc(s)}: non-constant tag assignment")
                        for x in self._each(el):
                            x.tag = tagv
                        continue
                self._guard_unrecognised(s)
            elif isinstance(s, ast.Expr) and isinstance(s.value, ast.Call) and isinstance(s.value.func, ast.Attribute) and isinstance(s.value.func.value, ast.Name) and isinstance(self.env.get(s.value.func.value.id), _ElemList):
                c = s.value
                lst = self.env[c.func.value.id]
                if c.func.attr == "append" and len(c.args) == 1:
                    child = self.ev(c.args[0], ctx)
                    if not isinstance(child, (Elem, _Alts)):
                        if getattr(lst, "tentative", False) and not lst.items:
                            self.env.pop(c.func.value.id, None)  # an ordinary list after all
                            continue
                        raise AnalysisError(f"{f.loc(s)}: append of a non-element to an element list")
                    item = child if isinstance(child, Elem) else Alt([[y] for y in child.elems])
                    i = 0
                    while i < len(lst.ctx) and i < len(ctx) and lst.ctx[i][1] is ctx[i][1] and lst.ctx[i][2] == ctx[i][2]:
                        i += 1
                    lst.items.append(self._wrap(item, ctx[i:]))
                elif getattr(lst, "tentative", False) and not lst.items:
                    self.env.pop(c.func.value.id, None)
                else:
                    raise AnalysisError(f"{f.loc(s)}: unrecognised operation on an element list: {norm(c)[:60]}")
            elif isinstance(s, ast.Expr) and isinstance(s.value, ast.Call) and isinstance(s.value.func, ast.Attribute):
                c = s.value
                el = self._targets_elem(c.func.value)
                if el is not None:
                    if c.func.attr == "append" and len(c.args) == 1:
                        child = self.ev(c.args[0], ctx)
                        if not isinstance(child, (Elem, _Alts)):
                            raise AnalysisError(f"{f.loc(s)}: append of a non-element {norm(c.args[0])}")
                        for x in self._each(el):
                            rel = self._rel(x, ctx)
                            item = child if isinstance(child, Elem) else Alt([[y] for y in child.elems])
                            x.children.append(self._wrap(item, rel))
                        continue
                    if c.func.attr == "extend" and len(c.args) == 1:
                        lv = self.ev(c.args[0], ctx)
                        if not isinstance(lv, _ElemList):
                            raise AnalysisError(f"{f.loc(s)}: extend() with something that is not a list of elements built here")
                        for x in self._each(el):
                            rel = self._rel(x, ctx)
                            for it in lv.items:
                                x.children.append(self._wrap(it, rel))
                        continue
                    if c.func.attr == "set" and len(c.args) == 2:
                        name = self.em.p.fold(c.args[0], f)
                        if not isinstance(name, str):
                            raise AnalysisError(f"{f.loc(s)}: non-constant attribute name")
                        for x in self._each(el):
                            rel = self._rel(x, ctx)
                            x.attrs.append(Attr(name, c.args[1], f, [Guard(n.test, pol, f) for k, n, pol in rel], s))
                        continue
                    raise AnalysisError(f"{f.loc(s)}: unrecognised element mutation {norm(c)[:60]}")
            elif isinstance(s, ast.If):
                taken = self._const_test(s.test)
                if taken is True:
                    self.block(s.body, ctx)
                elif taken is False:
                    self.block(s.orelse, ctx)
                else:
                    before = dict(self.env)
                    self.block(s.body, ctx + [("if", s, True)])
                    env_t = self.env
                    self.env = dict(before)
                    self.block(s.orelse, ctx + [("if", s, False)])
                    env_f = self.env
                    merged = {}
                    for k in set(env_t) | set(env_f):
                        a, b = env_t.get(k), env_f.get(k)
                        if a is b:
                            merged[k] = a
                        elif isinstance(a, (Elem, _Alts)) and isinstance(b, (Elem, _Alts)) and before.get(k) is not a and before.get(k) is not b:
                            al = self._each(a) + self._each(b)
                            for x in al:
                                _rebase(x, ctx)
                            merged[k] = _Alts(al)
                        elif isinstance(a, (Elem, _Alts)) and b is None and s.orelse == [] and before.get(k) is None:
                            merged[k] = a  # created only in the branch; uses outside would be a NameError at run time
                        else:
                            merged[k] = a if a is not None else b
                    self.env = merged
            elif isinstance(s, ast.For):
                self.block(s.body, ctx + [("for", s, True)])
            elif isinstance(s, ast.Return):
                v = self.ev(s.value, ctx) if s.value is not None else None
                if isinstance(v, _ElemList):
                    self.returns.append(v)
                elif isinstance(v, Elem):
                    self.returns.append(v)
                elif isinstance(v, _Alts):
                    self.returns += v.elems
                if ctx and v is not None:
                    pass
            elif isinstance(s, (ast.While, ast.Try, ast.With)):
                for n in ast.walk(s):
                    if isinstance(n, ast.Name) and isinstance(self.env.get(n.id), (Elem, _Alts)):
                        raise AnalysisError(f"{f.loc(s)}: element used inside {type(s).__name__} (unrecognised builder idiom)")
            else:
                self._guard_unrecognised(s)

    def _guard_unrecognised(self, s):
        """a statement that touches an element variable in a way the interpreter does not model"""
        for n in ast.walk(s):
            if isinstance(n, ast.Call) and isinstance(n.func, ast.Attribute) and isinstance(n.func.value, ast.Name) and isinstance(self.env.get(n.func.value.id), (Elem, _Alts)):
                if n.func.attr in ("remove", "clear", "extend", "insert", "replace", "addnext", "addprevious"):
                    raise AnalysisError(f"{self.f.loc(s)}: unrecognised element mutation {norm(n)[:60]}")
            if isinstance(n, ast.Delete):
                raise AnalysisError(f"{self.f.loc(s)}: del in a builder")

    def _const_test(self, test):
        """value of a test that only involves constant parameters (skipPath == False), else None"""
        if isinstance(test, ast.Compare) and len(test.ops) == 1 and isinstance(test.left, ast.Name) and test.left.id in self.consts and isinstance(test.comparators[0], ast.Constant):
            l, r = self.consts[test.left.id], test.comparators[0].value
            if isinstance(test.ops[0], (ast.Eq, ast.Is)):
                return l == r
            if isinstance(test.ops[0], (ast.NotEq, ast.IsNot)):
                return l != r
        if isinstance(test, ast.Name) and test.id in self.consts and isinstance(self.consts[test.id], bool):
            return self.consts[test.id]
        if isinstance(test, ast.UnaryOp) and isinstance(test.op, ast.Not):
            v = self._const_test(test.operand)
            return None if v is None else (not v)
        return None

    # -------------------------------------------------------------- document writers
    def _unmodelled_writes(self, node, sw, ew):
        """fail closed on a call, somewhere in `node`, to a helper that itself writes to the document"""
        if node is None:
            return
        p, f = self.em.p, self.f
        reach = self.em.writer_reach(sw, ew)
        for n in ast.walk(node):
            if isinstance(n, ast.Call):
                hit = [t for t in p.resolve_call(n, f) if t in reach and t != f.qual]
                if hit:
                    raise AnalysisError(f"{f.loc(n)}: call of {hit[0]}, which writes to the document itself (writer helper not modelled by the template extraction)")

    def doc_block(self, stmts, ctx, sw, ew):
        p, f = self.em.p, self.f
        items = []
        for s in stmts:
            if isinstance(s, ast.If):
                self._unmodelled_writes(s.test, sw, ew)
            elif isinstance(s, ast.For):
                self._unmodelled_writes(s.iter, sw, ew)
            elif isinstance(s, ast.With):
                for wi in s.items:
                    self._unmodelled_writes(wi.context_expr, sw, ew)
            elif isinstance(s, (ast.While, ast.Try)):
                pass
            elif not (isinstance(s, ast.Expr) and isinstance(s.value, ast.Call) and any(t in sw or t in ew for t in p.resolve_call(s.value, f))):
                self._unmodelled_writes(s, sw, ew)
            if isinstance(s, ast.Expr) and isinstance(s.value, ast.Call):
                c = s.value
                tg = p.resolve_call(c, f)
                if isinstance(c.func, ast.Attribute) and c.func.attr == "write" and any(t.startswith(("extm:open", "unk:write")) for t in tg):
                    items += self._raw(c.args[0] if c.args else None, c, ctx)
                    continue
                t0 = next((t for t in tg if t in sw or t in ew), None)
                if t0 in sw:
                    g = p.funcs[t0]
                    arg = p.bind_args(g, c).get(sw[t0])
                    items += self._raw(arg, c, ctx)
                    continue
                if t0 in ew:
                    g = p.funcs[t0]
                    arg = p.bind_args(g, c).get(ew[t0])
                    v = self.ev(arg, ctx)
                    if isinstance(v, Elem):
                        items.append(v)
                    elif isinstance(v, _Alts):
                        items.append(Alt([[x] for x in v.elems]))
                    else:
                        raise AnalysisError(f"{f.loc(c)}: element writer called with something that is not a builder result: {norm(arg)[:60]}")
                    continue
            elif isinstance(s, ast.If):
                a = self.doc_block(s.body, ctx + [("if", s, True)], sw, ew)
                b = self.doc_block(s.orelse, ctx + [("if", s, False)], sw, ew) if s.orelse else []
                if a and b:
                    alt = Alt([a, b])
                    alt.guard = Guard(s.test, True, f)
                    items.append(alt)
                elif a:
                    items.append(Opt(Guard(s.test, True, f), a))
                elif b:
                    items.append(Opt(Guard(s.test, False, f), b))
                continue
            elif isinstance(s, ast.For):
                # for el in (build(x) for x in xs) / a local name bound once to such a comprehension: el is the comprehension's element
                it = s.iter
                if isinstance(it, ast.Name):
                    binds = [n for n in walk_no_nested(f.node) if isinstance(n, ast.Assign) and len(n.targets) == 1 and isinstance(n.targets[0], ast.Name) and n.targets[0].id == it.id]
                    if len(binds) == 1:
                        it = binds[0].value
                if isinstance(it, (ast.GeneratorExp, ast.ListComp)) and len(it.generators) == 1 and isinstance(s.target, ast.Name):
                    v = self.ev(it.elt, ctx + [("for", s, True)])
                    if isinstance(v, (Elem, _Alts)):
                        self.env[s.target.id] = v
                a = self.doc_block(s.body, ctx + [("for", s, True)], sw, ew)
                if a:
                    # an iteration that can be abandoned (`continue` / `break` of this loop, e.g. in an exception handler) may write nothing
                    def _own_jumps(stmts):
                        for st in stmts:
                            if isinstance(st, (ast.Continue, ast.Break)):
                                yield st
                            elif isinstance(st, (ast.For, ast.While, ast.FunctionDef, ast.AsyncFunctionDef, ast.ClassDef)):
                                continue
                            else:
                                for fld in ("body", "orelse", "finalbody"):
                                    yield from _own_jumps(getattr(st, fld, []) or [])
                                for h in getattr(st, "handlers", []) or []:
                                    yield from _own_jumps(h.body)

                    if any(True for _ in _own_jumps(s.body)):
                        skip = ast.Constant(value="iteration not abandoned")
                        ast.copy_location(skip, s)
                        a = [Opt(Guard(skip, True, f), a)]
                    items.append(Rep(s, f, a))
                continue
            elif isinstance(s, (ast.With,)):
                items += self.doc_block(s.body, ctx, sw, ew)
                continue
            elif isinstance(s, ast.Try) and not s.handlers and not s.orelse:
                # try: <writes> finally: <close / publish>: on the path that completes, the body's writes then the finaliser's
                items += self.doc_block(s.body, ctx, sw, ew)
                items += self.doc_block(s.finalbody, ctx, sw, ew)
                continue
            elif isinstance(s, ast.Try) and s.handlers and not any(isinstance(n, ast.Call) and (any(t in sw or t in ew for t in p.resolve_call(n, f)) or (isinstance(n.func, ast.Attribute) and n.func.attr == "write")) for h in s.handlers for st in h.body for n in ast.walk(st)):
                # try: <build / write> except ...: <no writes>: what the body writes is written unless it raises half-way; the handlers add nothing
                # (a handler that abandons the loop iteration is accounted for at the loop)
                items += self.doc_block(s.body, ctx, sw, ew)
                items += self.doc_block(s.orelse, ctx, sw, ew)
                items += self.doc_block(s.finalbody, ctx, sw, ew)
                continue
            elif isinstance(s, (ast.While, ast.Try)):
                for n in ast.walk(s):
                    if isinstance(n, ast.Call) and isinstance(n.func, ast.Attribute) and n.func.attr == "write":
                        raise AnalysisError(f"{f.loc(s)}: write inside {type(s).__name__} (unrecognised writer idiom)")
                    if isinstance(n, ast.Call) and any(t in sw or t in ew for t in p.resolve_call(n, f)):
                        raise AnalysisError(f"{f.loc(s)}: write inside {type(s).__name__} (unrecognised writer idiom)")
                self._unmodelled_writes(s, sw, ew)
            elif isinstance(s, ast.Assign) and len(s.targets) == 1 and isinstance(s.targets[0], ast.Name):
                v = self.ev(s.value, ctx)
                if isinstance(v, (Elem, _Alts)):
                    self.env[s.targets[0].id] = v
        return items

    def _raw(self, arg, call, ctx):
        p, f = self.em.p, self.f
        v = p.fold(arg, f) if arg is not None else None
        if isinstance(v, bytes):
            v = v.decode("utf-8")
        if not isinstance(v, str):
            self.raw_dynamic.append(RawDynamic(f, call))
            return [RawDynamic(f, call)]
        out = []
        for m in re.finditer(r"<(\?|/)?([A-Za-z_][\w.\-]*)((?:\s+[\w:.\-]+\s*=\s*\"[^\"]*\")*)\s*(/)?>|<\?xml[^>]*\?>", v):
            if m.group(0).startswith("<?"):
                out.append(Tok("decl", "?xml", dict(re.findall(r"([\w:.\-]+)\s*=\s*\"([^\"]*)\"", m.group(0))), f, call))
                continue
            attrs = dict(re.findall(r"([\w:.\-]+)\s*=\s*\"([^\"]*)\"", m.group(3) or ""))
            if m.group(1) == "/":
                out.append(Tok("close", m.group(2), {}, f, call))
            elif m.group(4):
                out.append(Tok("open", m.group(2), attrs, f, call))
                out.append(Tok("close", m.group(2), {}, f, call))
            else:
                out.append(Tok("open", m.group(2), attrs, f, call))
        rest = re.sub(r"<[^>]*>", "", v).strip()
        if rest:
            raise AnalysisError(f"{f.loc(call)}: raw constant text outside tags: {rest[:40]!r}")
        return out


def _rebase(el: Elem, ctx):
    """an element built by an inlined callee is 'created' in the caller's current context"""
    el.ctx = list(ctx)
    for c in walk_elems(el):
        if c is not el:
            pass


def fold_tokens(items, f: Func):
    """replace open…close token pairs by Elem nodes; tokens must balance inside each structural block"""
    out = []
    stack = []

    def emit(x):
        (stack[-1].children if stack else out).append(x)

    for it in items:
        if isinstance(it, Tok):
            if it.kind == "decl":
                out.append(it)
                continue
            if it.kind == "open":
                el = Elem(it.tag, it.func, it.node, [])
                el.raw_attrs = dict(it.attrs)
                emit(el)
                stack.append(el)
            else:
                if not stack or stack[-1].tag != it.tag:
                    raise AnalysisError(f"{f.loc(it.node)}: closing tag </{it.tag}> does not match the element opened at this structural level ({stack[-1].tag if stack else 'none'}): document not well-formed on some path")
                stack.pop()
        elif isinstance(it, Opt):
            emit(Opt(it.guard, fold_tokens(it.items, f)))
        elif isinstance(it, Rep):
            emit(Rep(it.loop, it.func, fold_tokens(it.items, f)))
        elif isinstance(it, Alt):
            emit(Alt([fold_tokens(b, f) for b in it.branches]))
        else:
            emit(it)
    if stack:
        raise AnalysisError(f"{f.qual}: element <{stack[-1].tag}> is opened and not closed at the same structural level: document not well-formed on some path")
    return [x for x in out if not (isinstance(x, Tok) and x.kind == "decl")] if not any(isinstance(x, Tok) and x.kind != "decl" for x in out) else out
