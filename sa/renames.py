"""Rename recovery (a normalisation step in front of every analysis, never a verdict).

Rules locate the functions that play a role (the loader, the validator, the child-history discovery, the writer helpers ...) by the
names they have in the tree the rules were written against. A maintainer who renames such a function changes no behaviour; without
this step the anchor would vanish (exit 2) or, worse, its callers would be judged as if the step it performs were missing.

`known_fingerprints.json` (generated from the reference tree by tools/gen_fingerprints.py) maps every function of the package to a
fingerprint of its body in which its own name, the docstring and every identifier that names a function or method of the package
are abstracted away. When a known qualified name is absent from the tree under analysis and exactly one *unknown* function of the
same module and class has that fingerprint, the function was renamed: the definition and all references to the new name are renamed
back in the parsed modules. Anything else (body changed as well, moved to another module, ambiguous) is left alone - the rules then
behave as before (helper-inlined view, or exit 2)."""
from __future__ import annotations

import ast
import hashlib
import json
import os
from typing import Dict, Tuple

_HERE = os.path.dirname(os.path.abspath(__file__))
TABLE = os.path.join(_HERE, "known_fingerprints.json")


def _functions(modules) -> Dict[str, Tuple[object, ast.AST, str]]:
    """qualified name -> (module, def node, owner qualname) for module-level functions and methods (one class level)"""
    out = {}
    for m in modules.values():
        for n in m.tree.body:
            if isinstance(n, (ast.FunctionDef, ast.AsyncFunctionDef)):
                out[f"{m.name}.{n.name}"] = (m, n, m.name)
            elif isinstance(n, ast.ClassDef):
                for k in n.body:
                    if isinstance(k, (ast.FunctionDef, ast.AsyncFunctionDef)):
                        out[f"{m.name}.{n.name}.{k.name}"] = (m, k, f"{m.name}.{n.name}")
    return out


def fingerprint(node, pkg_names) -> str:
    n = ast.parse(ast.unparse(node)).body[0]  # private copy
    n.name = "§self"
    n.returns = None
    for a in n.args.posonlyargs + n.args.args + n.args.kwonlyargs + ([n.args.vararg] if n.args.vararg else []) + ([n.args.kwarg] if n.args.kwarg else []):
        a.annotation = None  # type hints come and go with clean-ups
    n.decorator_list = [d for d in n.decorator_list]
    if n.body and isinstance(n.body[0], ast.Expr) and isinstance(n.body[0].value, ast.Constant) and isinstance(n.body[0].value.value, str):
        n.body = n.body[1:] or [ast.Pass()]
    for x in ast.walk(n):
        if isinstance(x, ast.Name) and x.id in pkg_names:
            x.id = "§"
        elif isinstance(x, ast.Attribute) and x.attr in pkg_names:
            x.attr = "§"
        elif isinstance(x, ast.keyword) and x.arg in pkg_names:
            pass
    return hashlib.sha256(ast.dump(n, include_attributes=False).encode()).hexdigest()[:24]


def table_of(modules) -> Dict[str, str]:
    fs = _functions(modules)
    names = {q.rsplit(".", 1)[1] for q in fs}
    return {q: fingerprint(nd, names) for q, (m, nd, owner) in fs.items()}


def recover(modules) -> Dict[str, str]:
    """rewrites `modules` in place; returns {new qualified name: known qualified name} for the renames that were undone"""
    if not os.path.exists(TABLE) or os.environ.get("VERIF_NO_RENAME_RECOVERY"):
        return {}
    known = json.load(open(TABLE))
    fs = _functions(modules)
    names = {q.rsplit(".", 1)[1] for q in fs}
    missing = [q for q in known if q not in fs]
    if not missing:
        return {}
    extra = {q: v for q, v in fs.items() if q not in known}
    fp_extra = {}
    for q, (m, nd, owner) in extra.items():
        fp_extra.setdefault((owner, fingerprint(nd, names)), []).append(q)
    all_def_names = {}
    for q in fs:
        all_def_names.setdefault(q.rsplit(".", 1)[1], []).append(q)
    undone = {}
    for q in missing:
        owner = q.rsplit(".", 1)[0]
        cands = fp_extra.get((owner, known[q]), [])
        if len(cands) != 1:
            continue
        undone[cands[0]] = q
    # a new name must stand for renamed functions only, all of which had one and the same old name (the same helper name can exist in
    # two modules), and the old name must be free everywhere in the package
    by_new = {}
    for nq, oq in undone.items():
        by_new.setdefault(nq.rsplit(".", 1)[1], []).append((nq, oq))
    for new_name, pairs in by_new.items():
        olds = {oq.rsplit(".", 1)[1] for _, oq in pairs}
        if len(olds) != 1 or set(all_def_names.get(new_name, [])) != {nq for nq, _ in pairs} or next(iter(olds)) in all_def_names:
            for nq, _ in pairs:
                undone.pop(nq, None)
    olds_all = [oq.rsplit(".", 1)[1] for oq in undone.values()]
    if not undone:
        return {}
    ren = {nq.rsplit(".", 1)[1]: oq.rsplit(".", 1)[1] for nq, oq in undone.items()}
    for m in modules.values():
        for x in ast.walk(m.tree):
            if isinstance(x, (ast.FunctionDef, ast.AsyncFunctionDef)) and x.name in ren:
                x.name = ren[x.name]
            elif isinstance(x, ast.Name) and x.id in ren:
                x.id = ren[x.id]
            elif isinstance(x, ast.Attribute) and x.attr in ren:
                x.attr = ren[x.attr]
            elif isinstance(x, ast.alias):
                if x.name in ren:
                    if x.asname is None:
                        x.name = ren[x.name]
                    else:
                        x.name = ren[x.name]
                if x.asname in ren:
                    x.asname = ren[x.asname]
            elif isinstance(x, ast.keyword) and False:
                pass
    return undone


def unknown_overrides(program):
    """`module.Class.method` for methods that override a method of a package base class and that the reference tree does not have
    (dunder methods excluded). Needs the fingerprint table; returns [] without it."""
    if not os.path.exists(TABLE):
        return []
    known = json.load(open(TABLE))
    out = []
    for cq, c in program.classes.items():
        for mname, m in c.methods.items():
            if mname.startswith("__") and mname.endswith("__"):
                continue
            q = f"{cq}.{mname}"
            if q in known:
                continue
            for base in program.mro(cq)[1:]:
                bc = program.classes.get(base)
                if bc is not None and mname in bc.methods:
                    out.append(q)
                    break
    return sorted(out)
