"""Source normalisations applied to the parsed modules before anything is indexed (after sa/renames.py). None of them decides anything;
each undoes a behaviour-preserving way of writing the same program, so that the rules meet the shapes they were written against.

N1  named constants. A module-level (or class-level) name that does not exist in the reference tree (sa/known_names.json), is bound
    exactly once, to a literal (str / int / float / bool / None, arithmetic on such, or a tuple / list of such), and is never re-bound
    anywhere in the package, is replaced by its value wherever it is read (same module, `from .m import NAME`, `m.NAME`,
    `Class.NAME` / `self.NAME` / `cls.NAME`).
N2  NamedTuples. A class that does not exist in the reference tree and is a plain `typing.NamedTuple` (annotated fields, no methods) or a
    `collections.namedtuple(...)`: constructor calls become tuple displays in field order; `x.field` becomes `x[i]` where `field` is a
    field of exactly one such class and nothing else in the package has an attribute of that name, or where x is a local that is bound
    only to such tuples in that function (constructor call / call of a package function all of whose returns are constructor calls /
    loop variable over a local list that only receives them)."""
from __future__ import annotations

import ast
import json
import os
from typing import Dict, List, Optional

_HERE = os.path.dirname(os.path.abspath(__file__))
NAMES = os.path.join(_HERE, "known_names.json")


def names_table(modules) -> Dict[str, List[str]]:
    out = {}
    for m in modules.values():
        top = set()
        for n in m.tree.body:
            if isinstance(n, (ast.FunctionDef, ast.AsyncFunctionDef, ast.ClassDef)):
                top.add(n.name)
            for t in _targets(n):
                top.add(t)
            if isinstance(n, ast.ClassDef):
                inner = set()
                for k in n.body:
                    for t in _targets(k):
                        inner.add(t)
                out[f"{m.name}.{n.name}"] = sorted(inner)
        out[m.name] = sorted(top)
    # local names per function (N3): "<module>::<qualified function name>" -> names stored in that function
    for m in modules.values():
        for qual, fn in _functions(m.tree):
            out[f"{m.name}::{qual}"] = sorted(_stored_locals(fn))
    return out


def _functions(tree, prefix=""):
    for n in getattr(tree, "body", []):
        if isinstance(n, (ast.FunctionDef, ast.AsyncFunctionDef)):
            yield prefix + n.name, n
            yield from _functions(n, prefix + n.name + ".")
        elif isinstance(n, ast.ClassDef):
            yield from _functions(n, prefix + n.name + ".")


def _own_nodes(fn):
    """nodes of a function body without nested function / class definitions"""
    stack = list(fn.body)
    while stack:
        n = stack.pop()
        if isinstance(n, (ast.FunctionDef, ast.AsyncFunctionDef, ast.ClassDef, ast.Lambda)):
            continue
        yield n
        stack.extend(ast.iter_child_nodes(n))


def _stored_locals(fn):
    return {n.id for n in _own_nodes(fn) if isinstance(n, ast.Name) and isinstance(n.ctx, (ast.Store, ast.Del))}


def _targets(n):
    if isinstance(n, ast.Assign):
        for t in n.targets:
            if isinstance(t, ast.Name):
                yield t.id
    elif isinstance(n, ast.AnnAssign) and isinstance(n.target, ast.Name) and n.value is not None:
        yield n.target.id


def _literal(e) -> bool:
    if isinstance(e, ast.Constant):
        return isinstance(e.value, (str, int, float, bool, type(None), bytes))
    if isinstance(e, (ast.Tuple, ast.List)):
        return all(_literal(x) for x in e.elts)
    if isinstance(e, ast.BinOp) and isinstance(e.op, (ast.Add, ast.Sub, ast.Mult, ast.FloorDiv)):
        return _literal(e.left) and _literal(e.right) and not isinstance(e.left, (ast.Tuple, ast.List)) and not isinstance(e.right, (ast.Tuple, ast.List))
    if isinstance(e, ast.UnaryOp) and isinstance(e.op, ast.USub):
        return _literal(e.operand)
    return False


def _copy(e):
    return ast.parse(ast.unparse(e), mode="eval").body


def apply(modules) -> dict:
    if not os.path.exists(NAMES) or os.environ.get("VERIF_NO_NORMALISE"):
        return {}
    known = json.load(open(NAMES))
    stats = {"constants": [], "namedtuples": []}
    _constants(modules, known, stats)
    _namedtuples(modules, known, stats)
    stats["unrolled_attribute_loops"] = _unroll_attribute_loops(modules)
    stats["expanded_option_decorators"] = _expand_option_decorators(modules)
    stats["priority_tables"] = _priority_tables(modules)
    stats["set_methods"] = _set_methods(modules)
    stats["named_conditions"] = _named_conditions(modules, known)
    return stats


# ---------------------------------------------------------------------------------------------------------------- N4
def _simple_value(e) -> bool:
    if isinstance(e, ast.Constant):
        return isinstance(e.value, (str, int, float, bool, type(None)))
    if isinstance(e, ast.Name):
        return True
    return isinstance(e, ast.Attribute) and _simple_value(e.value)


def _literal_rows(st, consts):
    """the iterations of `for v in (c1, c2, ..)` / `for a, b in ((c1, e1), (c2, e2), ..)` over a literal table of at most 8 rows (or a module-level tuple of
    strings bound once) as a list of {loop variable: expression}; None if the loop is not of that kind"""
    it = st.iter
    if isinstance(it, ast.Name) and it.id in consts and isinstance(st.target, ast.Name):
        it = consts[it.id]
    if not isinstance(it, (ast.Tuple, ast.List)) or not 1 <= len(it.elts) <= 8:
        return None
    if isinstance(st.target, ast.Name):
        if all(isinstance(e, ast.Constant) and isinstance(e.value, str) for e in it.elts):
            return [{st.target.id: e} for e in it.elts]
        return None
    if isinstance(st.target, ast.Tuple) and all(isinstance(t, ast.Name) for t in st.target.elts) and len({t.id for t in st.target.elts}) == len(st.target.elts):
        rows = []
        for e in it.elts:
            if not isinstance(e, ast.Tuple) or len(e.elts) != len(st.target.elts) or not all(_simple_value(x) for x in e.elts):
                return None
            if not any(isinstance(x, ast.Constant) and isinstance(x.value, str) for x in e.elts):
                return None
            rows.append({t.id: x for t, x in zip(st.target.elts, e.elts)})
        return rows
    return None


def _unroll_attribute_loops(modules) -> int:
    """N4: `for name in ("role", "email", "phone"): v = getattr(obj, name) ...` - a loop over a literal tuple / list of at most 8 string constants whose body
    reads or writes attributes through the loop variable (getattr / setattr / hasattr) is written out once per constant, `getattr(o, "c")` becomes `o.c`
    and a statement `setattr(o, "c", v)` becomes `o.c = v`: the same program without the dynamic attribute access"""
    import copy as _copy

    count = 0
    consts = {}

    def unroll(block):
        nonlocal count
        i = 0
        while i < len(block):
            st = block[i]
            for fld in ("body", "orelse", "finalbody"):
                sub = getattr(st, fld, None)
                if isinstance(sub, list) and sub and isinstance(sub[0], ast.stmt) and not isinstance(st, (ast.FunctionDef, ast.AsyncFunctionDef, ast.ClassDef)):
                    unroll(sub)
            for h in getattr(st, "handlers", []) or []:
                unroll(h.body)
            if isinstance(st, (ast.FunctionDef, ast.AsyncFunctionDef, ast.ClassDef)):
                unroll(st.body)
            rows = _literal_rows(st, consts) if isinstance(st, ast.For) and not st.orelse else None
            if rows:
                vars_ = set(rows[0])
                dyn = [c for b in st.body for c in ast.walk(b) if isinstance(c, ast.Call) and isinstance(c.func, ast.Name) and c.func.id in ("getattr", "setattr", "hasattr") and len(c.args) >= 2 and isinstance(c.args[1], ast.Name) and c.args[1].id in vars_]
                # a table of (name, value) pairs: the body writes / reads `x.attrib[name]`, `x[name]` with the loop variable as key
                dyn += [c for b in st.body for c in ast.walk(b) if isinstance(c, ast.Subscript) and isinstance(c.slice, ast.Name) and c.slice.id in vars_ and len(vars_) > 1]
                ctrl = [c for b in st.body for c in ast.walk(b) if isinstance(c, (ast.Break, ast.Continue, ast.Return, ast.Yield, ast.YieldFrom))]
                rebinds = [c for b in st.body for c in ast.walk(b) if isinstance(c, ast.Name) and c.id in vars_ and isinstance(c.ctx, (ast.Store, ast.Del))]
                # values that are not constants are read when the table is built; written out they are read in each copy of the body: the same
                # only if the body cannot change them (no calls, no store to a name or attribute the values mention)
                nonconst = [e for r in rows for e in r.values() if not isinstance(e, ast.Constant)]
                if nonconst:
                    mentioned = {x.id for e in nonconst for x in ast.walk(e) if isinstance(x, ast.Name)} | {x.attr for e in nonconst for x in ast.walk(e) if isinstance(x, ast.Attribute)}
                    for b in st.body:
                        for c in ast.walk(b):
                            if isinstance(c, (ast.Call, ast.Await, ast.NamedExpr)) and not (isinstance(c, ast.Call) and isinstance(c.func, ast.Name) and c.func.id in ("getattr", "hasattr", "isinstance", "len", "str")):
                                ctrl.append(c)
                            if isinstance(c, ast.Name) and isinstance(c.ctx, (ast.Store, ast.Del)) and c.id in mentioned:
                                ctrl.append(c)
                            if isinstance(c, ast.Attribute) and isinstance(c.ctx, (ast.Store, ast.Del)) and c.attr in mentioned:
                                ctrl.append(c)
                if dyn and not ctrl and not rebinds:
                    new = []
                    for row in rows:
                        class _S(ast.NodeTransformer):
                            def visit_Name(self, node):
                                if node.id in row and isinstance(node.ctx, ast.Load):
                                    return ast.copy_location(_copy.deepcopy(row[node.id]), node)
                                return node

                            def visit_Call(self, node):
                                self.generic_visit(node)
                                if isinstance(node.func, ast.Name) and node.func.id == "getattr" and len(node.args) == 2 and isinstance(node.args[1], ast.Constant) and isinstance(node.args[1].value, str) and node.args[1].value.isidentifier():
                                    return ast.copy_location(ast.Attribute(value=node.args[0], attr=node.args[1].value, ctx=ast.Load()), node)
                                return node

                            def visit_Expr(self, node):
                                self.generic_visit(node)
                                c = node.value
                                if isinstance(c, ast.Call) and isinstance(c.func, ast.Name) and c.func.id == "setattr" and len(c.args) == 3 and isinstance(c.args[1], ast.Constant) and isinstance(c.args[1].value, str) and c.args[1].value.isidentifier():
                                    return ast.copy_location(ast.Assign(targets=[ast.Attribute(value=c.args[0], attr=c.args[1].value, ctx=ast.Store())], value=c.args[2]), node)
                                return node

                        for b in st.body:
                            new.append(_S().visit(_copy.deepcopy(b)))
                    block[i:i + 1] = new
                    count += 1
                    i += len(new)
                    continue
            i += 1

    for m in modules.values():
        # module-level tables of strings bound exactly once (`_NAMES = ("role", "email", "phone")`) may be named as the iterable
        consts.clear()
        bound = {}
        for n in ast.walk(m.tree):
            if isinstance(n, ast.Name) and isinstance(n.ctx, (ast.Store, ast.Del)):
                bound[n.id] = bound.get(n.id, 0) + 1
        for stm in m.tree.body:
            if isinstance(stm, ast.Assign) and len(stm.targets) == 1 and isinstance(stm.targets[0], ast.Name) and bound.get(stm.targets[0].id) == 1 and isinstance(stm.value, ast.Tuple):
                if stm.value.elts and all(isinstance(e, ast.Constant) and isinstance(e.value, str) for e in stm.value.elts):
                    consts[stm.targets[0].id] = stm.value
        unroll(m.tree.body)
    if count:
        from .model import set_parents

        for m in modules.values():
            ast.fix_missing_locations(m.tree)
            set_parents(m.tree)
    return count


# ---------------------------------------------------------------------------------------------------------------- N5
def _body_without_docstring(fn):
    b = fn.body
    if b and isinstance(b[0], ast.Expr) and isinstance(b[0].value, ast.Constant) and isinstance(b[0].value.value, str):
        b = b[1:]
    return b


def _is_click_declaration(e) -> bool:
    return isinstance(e, ast.Call) and isinstance(e.func, ast.Attribute) and isinstance(e.func.value, ast.Name) and e.func.value.id == "click" and e.func.attr in ("option", "argument", "version_option", "help_option", "pass_context")


def _combinator_order(fn):
    """`def group(*ds): def deco(f): for d in reversed(ds): f = d(f); return f; return deco` - a function that folds the decorators it is given over the
    decorated function and does nothing else.  Returns +1 if the first listed decorator ends up outermost (as if stacked top to bottom in the listed
    order), -1 for the opposite order, None if the function is not of that shape"""
    a = fn.args
    if a.args or a.posonlyargs or a.kwonlyargs or a.kwarg or a.vararg is None or fn.decorator_list:
        return None
    v = a.vararg.arg
    body = _body_without_docstring(fn)
    if len(body) != 2 or not isinstance(body[0], ast.FunctionDef) or not isinstance(body[1], ast.Return) or not isinstance(body[1].value, ast.Name) or body[1].value.id != body[0].name:
        return None
    inner = body[0]
    ia = inner.args
    if len(ia.args) != 1 or ia.posonlyargs or ia.kwonlyargs or ia.kwarg or ia.vararg or ia.defaults or inner.decorator_list:
        return None
    f = ia.args[0].arg
    ib = _body_without_docstring(inner)
    if len(ib) != 2 or not isinstance(ib[0], ast.For) or ib[0].orelse or not isinstance(ib[1], ast.Return) or not isinstance(ib[1].value, ast.Name) or ib[1].value.id != f:
        return None
    loop = ib[0]
    if not isinstance(loop.target, ast.Name) or len(loop.body) != 1:
        return None
    d = loop.target.id
    st = loop.body[0]
    if not (isinstance(st, ast.Assign) and len(st.targets) == 1 and isinstance(st.targets[0], ast.Name) and st.targets[0].id == f and ast.unparse(st.value) == f"{d}({f})"):
        return None
    it = ast.unparse(loop.iter).replace(" ", "")
    if it in (f"reversed({v})", f"{v}[::-1]"):
        return 1
    if it == v:
        return -1
    return None


def _expand_option_decorators(modules) -> int:
    """N5: `@creator_info_options()` where the module-level function does nothing but return click declarations (directly, through another such function,
    or combined by a function that only folds decorators over the command) is written out as the stacked `@click.option(..)` lines it stands for,
    so that the commands' parameters are declared where the rules (and click) look for them"""
    count = 0
    for m in modules.values():
        top, bound = {}, {}
        for n in ast.walk(m.tree):
            if isinstance(n, ast.Name) and isinstance(n.ctx, (ast.Store, ast.Del)):
                bound[n.id] = bound.get(n.id, 0) + 1
            if isinstance(n, (ast.FunctionDef, ast.AsyncFunctionDef, ast.ClassDef)):
                bound[n.name] = bound.get(n.name, 0) + 1
        for st in m.tree.body:
            if isinstance(st, ast.FunctionDef) and bound.get(st.name) == 1:
                top[st.name] = st
        tables = {}
        for st in m.tree.body:
            if isinstance(st, ast.Assign) and len(st.targets) == 1 and isinstance(st.targets[0], ast.Name) and bound.get(st.targets[0].id) == 1 and isinstance(st.value, (ast.Tuple, ast.List)) and _literal(st.value):
                tables[st.targets[0].id] = st.value

        def expand(e, depth=0):
            if depth > 6:
                return None
            if _is_click_declaration(e):
                return [e]
            if isinstance(e, ast.Call) and isinstance(e.func, ast.Name) and e.func.id in top:
                fn = top[e.func.id]
                order = _combinator_order(fn)
                if order is not None:
                    if e.keywords:
                        return None
                    out = []
                    for a in e.args:
                        r = expand_list(a.value, depth + 1) if isinstance(a, ast.Starred) else expand(a, depth + 1)
                        if r is None:
                            return None
                        out.extend(r)
                    return out if order == 1 else out[::-1]
                fa = fn.args
                if e.args or e.keywords or fa.args or fa.posonlyargs or fa.kwonlyargs or fa.vararg or fa.kwarg or fn.decorator_list:
                    return None
                body = _body_without_docstring(fn)
                if len(body) == 1 and isinstance(body[0], ast.Return) and body[0].value is not None:
                    return expand(body[0].value, depth + 1)
            return None

        def expand_list(e, depth):
            if isinstance(e, (ast.List, ast.Tuple)):
                out = []
                for x in e.elts:
                    r = expand(x, depth + 1)
                    if r is None:
                        return None
                    out.extend(r)
                return out
            if isinstance(e, (ast.ListComp, ast.GeneratorExp)) and len(e.generators) == 1 and not e.generators[0].ifs and not e.generators[0].is_async:
                g = e.generators[0]
                it = g.iter
                if isinstance(it, ast.Name) and it.id in tables:
                    it = tables[it.id]
                if not isinstance(it, (ast.Tuple, ast.List)) or not _literal(it) or len(it.elts) > 32:
                    return None
                out = []
                for row in it.elts:
                    if isinstance(g.target, ast.Name):
                        sub = {g.target.id: row}
                    elif isinstance(g.target, ast.Tuple) and all(isinstance(t, ast.Name) for t in g.target.elts) and isinstance(row, (ast.Tuple, ast.List)) and len(row.elts) == len(g.target.elts):
                        sub = {t.id: x for t, x in zip(g.target.elts, row.elts)}
                    else:
                        return None

                    class _S(ast.NodeTransformer):
                        def visit_Name(self, node):
                            if node.id in sub and isinstance(node.ctx, ast.Load):
                                return ast.copy_location(_copy(sub[node.id]), node)
                            return node

                    r = expand(_S().visit(_copy(e.elt)), depth + 1)
                    if r is None:
                        return None
                    out.extend(r)
                return out
            return None

        for fn in [n for n in ast.walk(m.tree) if isinstance(n, ast.FunctionDef) and n.decorator_list]:
            new = []
            changed = False
            for d in fn.decorator_list:
                r = None if _is_click_declaration(d) else expand(d)
                if r is None:
                    new.append(d)
                else:
                    for x in r:
                        new.append(ast.copy_location(_copy(x), d))
                    changed = True
            if changed:
                fn.decorator_list = new
                count += 1
    if count:
        from .model import set_parents

        for m in modules.values():
            ast.fix_missing_locations(m.tree)
            set_parents(m.tree)
    return count


# ---------------------------------------------------------------------------------------------------------------- N6
def _first_match_helper(fn):
    """`def pick(candidates, fallback=None): for cond, value in candidates: if cond: return value; return fallback` - returns (table parameter, fallback
    parameter or None, fallback default) if the function is exactly that, else None"""
    a = fn.args
    if a.posonlyargs or a.kwonlyargs or a.vararg or a.kwarg or fn.decorator_list or not 1 <= len(a.args) <= 2:
        return None
    table = a.args[0].arg
    fb = a.args[1].arg if len(a.args) == 2 else None
    fb_default = a.defaults[0] if (fb is not None and len(a.defaults) == 1) else None
    if fb is not None and len(a.defaults) > 1:
        return None
    body = _body_without_docstring(fn)
    if len(body) != 2 or not isinstance(body[0], ast.For) or body[0].orelse or not isinstance(body[1], ast.Return):
        return None
    lp = body[0]
    if not (isinstance(lp.iter, ast.Name) and lp.iter.id == table and isinstance(lp.target, ast.Tuple) and len(lp.target.elts) == 2 and all(isinstance(t, ast.Name) for t in lp.target.elts)):
        return None
    c, v = lp.target.elts[0].id, lp.target.elts[1].id
    if len(lp.body) != 1 or not isinstance(lp.body[0], ast.If) or lp.body[0].orelse or ast.unparse(lp.body[0].test) != c:
        return None
    inner = lp.body[0].body
    if len(inner) != 1 or not isinstance(inner[0], ast.Return) or inner[0].value is None or ast.unparse(inner[0].value) != v:
        return None
    last = body[1].value
    if fb is None:
        if not (last is None or (isinstance(last, ast.Constant) and last.value is None)):
            return None
    elif last is None or ast.unparse(last) != fb:
        return None
    return table, fb, fb_default


def _pure_value(e) -> bool:
    """a value whose construction has no effect: a name, a constant, an attribute read, or an exception object built from such (`errors.SomethingException(..)`)"""
    if _is_pure_condition(e):
        return True
    if isinstance(e, ast.Call) and not any(isinstance(x, ast.Starred) for x in e.args) and all(k.arg for k in e.keywords):
        fn = ast.unparse(e.func)
        if fn.split(".")[-1].endswith(("Exception", "Error")):
            return all(_pure_value(x) for x in e.args) and all(_pure_value(k.value) for k in e.keywords)
    return False


def _priority_tables(modules) -> int:
    """N6: `x = pick(((c1, v1), (c2, v2), ..), fallback=f)` with a first-match helper of the exact shape above, a literal table, conditions and values without
    effects (so that evaluating all of them in front of the call or only the ones that are reached makes no difference) is written out as
    `if c1: x = v1 / elif c2: x = v2 / .. / else: x = f`"""
    count = 0
    for m in modules.values():
        helpers = {}
        bound = {}
        for n in ast.walk(m.tree):
            if isinstance(n, (ast.FunctionDef, ast.AsyncFunctionDef, ast.ClassDef)):
                bound[n.name] = bound.get(n.name, 0) + 1
            if isinstance(n, ast.Name) and isinstance(n.ctx, (ast.Store, ast.Del)):
                bound[n.id] = bound.get(n.id, 0) + 1
        for st in m.tree.body:
            if isinstance(st, ast.FunctionDef) and bound.get(st.name) == 1:
                sh = _first_match_helper(st)
                if sh is not None:
                    helpers[st.name] = sh
        if not helpers:
            continue

        def rewrite(block):
            nonlocal count
            for i, st in enumerate(list(block)):
                for fld in ("body", "orelse", "finalbody"):
                    sub = getattr(st, fld, None)
                    if isinstance(sub, list) and sub and isinstance(sub[0], ast.stmt):
                        rewrite(sub)
                for h in getattr(st, "handlers", []) or []:
                    rewrite(h.body)
                if not (isinstance(st, ast.Assign) and len(st.targets) == 1 and isinstance(st.targets[0], ast.Name) and isinstance(st.value, ast.Call) and isinstance(st.value.func, ast.Name) and st.value.func.id in helpers):
                    continue
                table_p, fb_p, fb_default = helpers[st.value.func.id]
                call = st.value
                args = {}
                params = [table_p] + ([fb_p] if fb_p else [])
                if len(call.args) > len(params) or any(isinstance(a, ast.Starred) for a in call.args):
                    continue
                for pn, av in zip(params, call.args):
                    args[pn] = av
                okk = True
                for k in call.keywords:
                    if k.arg not in params or k.arg in args:
                        okk = False
                    else:
                        args[k.arg] = k.value
                tbl = args.get(table_p)
                if not okk or not isinstance(tbl, (ast.Tuple, ast.List)) or not tbl.elts:
                    continue
                rows = []
                for e in tbl.elts:
                    if not (isinstance(e, ast.Tuple) and len(e.elts) == 2 and _is_pure_condition(e.elts[0]) and _pure_value(e.elts[1])):
                        rows = None
                        break
                    rows.append((e.elts[0], e.elts[1]))
                fb = args.get(fb_p) if fb_p else None
                if fb is None:
                    fb = fb_default if fb_default is not None else ast.Constant(value=None)
                if rows is None or not _pure_value(fb):
                    continue
                tname = st.targets[0].id
                node = None
                for cnd, val in reversed(rows):
                    new_if = ast.If(test=_copy(cnd), body=[ast.Assign(targets=[ast.Name(id=tname, ctx=ast.Store())], value=_copy(val))], orelse=[node] if node is not None else [ast.Assign(targets=[ast.Name(id=tname, ctx=ast.Store())], value=_copy(fb))])
                    node = new_if
                for x in ast.walk(node):
                    ast.copy_location(x, st)
                block[block.index(st)] = node
                count += 1

        for fn in [n for n in ast.walk(m.tree) if isinstance(n, (ast.FunctionDef, ast.AsyncFunctionDef))]:
            rewrite(fn.body)
    if count:
        from .model import set_parents

        for m in modules.values():
            ast.fix_missing_locations(m.tree)
            set_parents(m.tree)
    return count


# ---------------------------------------------------------------------------------------------------------------- N7
_SET_METHODS = {"difference": ast.Sub, "union": ast.BitOr, "intersection": ast.BitAnd, "symmetric_difference": ast.BitXor}
_SET_UPDATES = {"difference_update": ast.Sub, "intersection_update": ast.BitAnd, "symmetric_difference_update": ast.BitXor}


def _set_methods(modules) -> int:
    """N7: the method spelling of the set operators with one argument (`a.difference(b)`, `a.union(b)`, `a.difference_update(b)` ...) is written as the
    operator (`a - b`, `a | b`, `a -= b`): these names exist on sets only (no class of the package defines one of them - checked), and the rules read the operators"""
    own = {n.name for m in modules.values() for n in ast.walk(m.tree) if isinstance(n, (ast.FunctionDef, ast.AsyncFunctionDef))}
    if own & (set(_SET_METHODS) | set(_SET_UPDATES)):
        return 0
    count = 0

    class T(ast.NodeTransformer):
        def visit_Call(self, node):
            nonlocal count
            self.generic_visit(node)
            f = node.func
            if isinstance(f, ast.Attribute) and f.attr in _SET_METHODS and len(node.args) == 1 and not node.keywords and not isinstance(node.args[0], ast.Starred):
                count += 1
                return ast.copy_location(ast.BinOp(left=f.value, op=_SET_METHODS[f.attr](), right=node.args[0]), node)
            return node

        def visit_Expr(self, node):
            nonlocal count
            self.generic_visit(node)
            c = node.value
            if isinstance(c, ast.Call) and isinstance(c.func, ast.Attribute) and c.func.attr in _SET_UPDATES and len(c.args) == 1 and not c.keywords and isinstance(c.func.value, ast.Name) and not isinstance(c.args[0], ast.Starred):
                count += 1
                return ast.copy_location(ast.AugAssign(target=ast.Name(id=c.func.value.id, ctx=ast.Store()), op=_SET_UPDATES[c.func.attr](), value=c.args[0]), node)
            return node

    for m in modules.values():
        T().visit(m.tree)
    if count:
        from .model import set_parents

        for m in modules.values():
            ast.fix_missing_locations(m.tree)
            set_parents(m.tree)
    return count


# ---------------------------------------------------------------------------------------------------------------- N3
def _first_evaluated(test, name):
    """the Name node `name` inside `test` if it is the first thing the test evaluates (so that moving the evaluation of its value from the statement in
    front of the `if` into the test changes nothing): `x`, `not x`, `x and ...`, `not x or ...`, `x == ...`, `x is None`"""
    t = test
    while True:
        if isinstance(t, ast.UnaryOp) and isinstance(t.op, ast.Not):
            t = t.operand
        elif isinstance(t, ast.BoolOp):
            t = t.values[0]
        elif isinstance(t, ast.Compare):
            t = t.left
        else:
            break
    return t if isinstance(t, ast.Name) and t.id == name else None


def _named_conditions(modules, known) -> int:
    """N3: a local that the reference tree does not have, bound to an expression and read exactly once - as the first thing the test of the `if` statement that
    directly follows the binding evaluates - is a NAME for that condition (`same_digest = a == b` / `if not same_digest: continue`); the expression is put back
    into the test. A local read anywhere else is left alone."""
    count = 0
    for m in modules.values():
        for qual, fn in _functions(m.tree):
            kn = known.get(f"{m.name}::{qual}")
            stored = _stored_locals(fn)
            new_locals = stored - set(kn) if kn is not None else stored
            if not new_locals:
                continue
            params = {a.arg for a in fn.args.posonlyargs + fn.args.args + fn.args.kwonlyargs} | ({fn.args.vararg.arg} if fn.args.vararg else set()) | ({fn.args.kwarg.arg} if fn.args.kwarg else set())
            loads = {}
            for n in _own_nodes(fn):
                if isinstance(n, ast.Name) and isinstance(n.ctx, ast.Load):
                    loads.setdefault(n.id, []).append(n)
            # nested functions reading the name make it non-local to this analysis
            nested_reads = {n.id for d in ast.walk(fn) if d is not fn and isinstance(d, (ast.FunctionDef, ast.AsyncFunctionDef, ast.Lambda)) for n in ast.walk(d) if isinstance(n, ast.Name)}
            pairs = {}  # name -> list of (block, index, name node in the test)
            ok_names = set(new_locals) - params - nested_reads

            def scan(block):
                for i, st in enumerate(block):
                    for fld in ("body", "orelse", "finalbody"):
                        sub = getattr(st, fld, None)
                        if isinstance(sub, list) and sub and isinstance(sub[0], ast.stmt):
                            scan(sub)
                    for h in getattr(st, "handlers", []) or []:
                        scan(h.body)
                    if isinstance(st, ast.Assign) and len(st.targets) == 1 and isinstance(st.targets[0], ast.Name) and st.targets[0].id in ok_names and i + 1 < len(block) and isinstance(block[i + 1], ast.If):
                        nm = _first_evaluated(block[i + 1].test, st.targets[0].id)
                        if nm is not None and sum(1 for x in ast.walk(block[i + 1].test) if isinstance(x, ast.Name) and x.id == nm.id) == 1:
                            pairs.setdefault(nm.id, []).append((block, i, nm))

            scan(fn.body)
            for name, ps in pairs.items():
                # every read of the name is one of these paired reads
                if len(loads.get(name, [])) != len(ps) or {id(x) for x in loads.get(name, [])} != {id(nm) for _, _, nm in ps}:
                    continue
                # and every binding of the name is one of the paired bindings
                n_stores = sum(1 for n in _own_nodes(fn) if isinstance(n, ast.Name) and n.id == name and isinstance(n.ctx, (ast.Store, ast.Del)))
                if n_stores != len(ps):
                    continue
                for block, i, nm in sorted(ps, key=lambda t: -t[1]):
                    asg = block[i]
                    if_ = block[block.index(asg) + 1]
                    value = asg.value

                    class _R(ast.NodeTransformer):
                        def visit_Name(self, node):
                            return ast.copy_location(value, node) if node is nm else node

                    if_.test = _R().visit(if_.test)
                    block.remove(asg)
                    count += 1
    count += _pure_named_expressions(modules, known)
    if count:
        for m in modules.values():
            ast.fix_missing_locations(m.tree)
            from .model import set_parents

            set_parents(m.tree)
    return count


def _is_pure_condition(e) -> bool:
    """an expression without side effects whose value only depends on the names it reads: comparisons, boolean operators, `not`, names, attribute reads,
    constants, `any` / `all` / `len` / `isinstance` over generator expressions of such"""
    if isinstance(e, (ast.Constant, ast.Name)):
        return True
    if isinstance(e, ast.Attribute):
        return _is_pure_condition(e.value)
    if isinstance(e, ast.UnaryOp) and isinstance(e.op, ast.Not):
        return _is_pure_condition(e.operand)
    if isinstance(e, ast.BoolOp):
        return all(_is_pure_condition(v) for v in e.values)
    if isinstance(e, ast.Compare):
        return _is_pure_condition(e.left) and all(_is_pure_condition(c) for c in e.comparators)
    if isinstance(e, ast.Call) and isinstance(e.func, ast.Name) and e.func.id in ("any", "all", "len", "bool") and len(e.args) == 1 and not e.keywords:
        a = e.args[0]
        if isinstance(a, (ast.GeneratorExp, ast.ListComp)):
            return _is_pure_condition(a.elt) and all(_is_pure_condition(g.iter) and all(_is_pure_condition(i) for i in g.ifs) for g in a.generators)
        return _is_pure_condition(a)
    return False


def _pure_named_expressions(modules, known) -> int:
    """N3b: a local the reference function does not have, bound ONCE to a pure boolean condition (a comparison / boolean combination / any() / all() over names
    and attributes) and read only in tests (of `if` statements, boolean operands, other such bindings) that follow the binding in the same block or below it,
    with nothing the condition reads re-bound after the binding: every read is replaced by the condition (`path_is_new = rec is None` ... `if path_is_new or ...`)"""
    count = 0
    for m in modules.values():
        for qual, fn in _functions(m.tree):
            kn = known.get(f"{m.name}::{qual}")
            stored = _stored_locals(fn)
            # also names the reference function has: there they are flags bound several times; bound ONCE to a pure condition they are a name for it
            new_locals = stored
            if not new_locals:
                continue
            params = {a.arg for a in fn.args.posonlyargs + fn.args.args + fn.args.kwonlyargs}
            changed = True
            rounds = 0
            while changed and rounds < 4:
                changed = False
                rounds += 1
                own = list(_own_nodes(fn))
                for name in sorted(new_locals - params):
                    binds = [n for n in own if isinstance(n, ast.Assign) and len(n.targets) == 1 and isinstance(n.targets[0], ast.Name) and n.targets[0].id == name]
                    stores = [n for n in own if isinstance(n, ast.Name) and n.id == name and isinstance(n.ctx, (ast.Store, ast.Del))]
                    if len(binds) != 1 or len(stores) != 1:
                        continue
                    b = binds[0]
                    val = b.value
                    if not isinstance(val, (ast.Compare, ast.BoolOp, ast.UnaryOp, ast.Call)) or not _is_pure_condition(val):
                        continue
                    loads = [n for n in own if isinstance(n, ast.Name) and n.id == name and isinstance(n.ctx, ast.Load)]
                    if not loads or any(n.lineno < b.lineno or (n.lineno == b.lineno) for n in loads):
                        continue
                    if any(isinstance(d, (ast.FunctionDef, ast.AsyncFunctionDef, ast.Lambda)) and any(isinstance(x, ast.Name) and x.id == name for x in ast.walk(d)) for d in ast.walk(fn) if d is not fn):
                        continue
                    free = {x.id for x in ast.walk(val) if isinstance(x, ast.Name)}
                    # nothing the condition reads is re-bound after the binding (generator variables of the condition itself excluded)
                    own_gen = {x.id for g_ in ast.walk(val) if isinstance(g_, ast.comprehension) for x in ast.walk(g_.target) if isinstance(x, ast.Name)}
                    later_stores = [n for n in own if isinstance(n, ast.Name) and isinstance(n.ctx, (ast.Store, ast.Del)) and n.id in (free - own_gen) and n.lineno > b.lineno]
                    if later_stores:
                        continue
                    # reads only inside tests / boolean expressions / other pure bindings
                    def _in_condition(n):
                        x = n
                        while True:
                            par = getattr(x, "_parent", None)
                            if par is None:
                                return False
                            if isinstance(par, ast.If) and par.test is x:
                                return True
                            if isinstance(par, ast.IfExp) and par.test is x:
                                return True
                            if isinstance(par, ast.Assign) and par.value is x and _is_pure_condition(par.value):
                                return True
                            if isinstance(par, (ast.BoolOp, ast.UnaryOp, ast.Compare)):
                                x = par
                                continue
                            return False

                    from .model import set_parents

                    set_parents(fn)
                    if not all(_in_condition(n) for n in loads):
                        continue
                    import copy as _copy

                    class _R(ast.NodeTransformer):
                        def visit_Name(self, node):
                            if node.id == name and isinstance(node.ctx, ast.Load):
                                return ast.copy_location(_copy.deepcopy(val), node)
                            return node

                    for blk in _blocks(fn.body):
                        for i, st in enumerate(blk):
                            if st is b:
                                continue
                            blk[i] = _R().visit(st)
                    for blk in _blocks(fn.body):
                        if b in blk:
                            blk.remove(b)
                    count += 1
                    changed = True
                    break
    return count


def _blocks(stmts):
    yield stmts
    for st in stmts:
        if isinstance(st, (ast.FunctionDef, ast.AsyncFunctionDef, ast.ClassDef)):
            continue
        for fld in ("body", "orelse", "finalbody"):
            sub = getattr(st, fld, None)
            if isinstance(sub, list) and sub and isinstance(sub[0], ast.stmt):
                yield from _blocks(sub)
        for h in getattr(st, "handlers", []) or []:
            yield from _blocks(h.body)


# ---------------------------------------------------------------------------------------------------------------- N1
def _constants(modules, known, stats):
    stores = {}  # name -> number of Store occurrences anywhere in the package (module level, class level, function level, attributes)
    for m in modules.values():
        for x in ast.walk(m.tree):
            if isinstance(x, ast.Name) and isinstance(x.ctx, (ast.Store, ast.Del)):
                stores[x.id] = stores.get(x.id, 0) + 1
            elif isinstance(x, ast.Attribute) and isinstance(x.ctx, (ast.Store, ast.Del)):
                stores[x.attr] = stores.get(x.attr, 0) + 1
            elif isinstance(x, (ast.Global, ast.Nonlocal)):
                for nme in x.names:
                    stores[nme] = stores.get(nme, 0) + 5
            elif isinstance(x, ast.arg):
                stores[x.arg] = stores.get(x.arg, 0) + 1
    mod_consts = {}  # (module name, NAME) -> value expr
    cls_consts = {}  # (class name, NAME) -> value expr
    for m in modules.values():
        kn = set(known.get(m.name, []))
        for n in m.tree.body:
            if isinstance(n, (ast.Assign, ast.AnnAssign)):
                val = n.value
                for t in _targets(n):
                    if t not in kn and val is not None and _literal(val) and stores.get(t, 0) == 1:
                        mod_consts[(m.name, t)] = val
            elif isinstance(n, ast.ClassDef):
                kc = set(known.get(f"{m.name}.{n.name}", [])) if f"{m.name}.{n.name}" in known else None
                for k in n.body:
                    if isinstance(k, (ast.Assign, ast.AnnAssign)) and k.value is not None and _literal(k.value):
                        for t in _targets(k):
                            if (kc is None or t not in kc) and stores.get(t, 0) == 1 and kc is not None:
                                cls_consts[(n.name, t)] = k.value
    if not mod_consts and not cls_consts:
        return
    # literal-valued constants may refer to each other (A = 2; B = A * 3): only plain literals were admitted above
    by_mod = {}
    for (mn, nme), v in mod_consts.items():
        by_mod.setdefault(mn, {})[nme] = v
    cls_names = {}
    for (cn, nme), v in cls_consts.items():
        cls_names.setdefault(nme, []).append((cn, v))

    for m in modules.values():
        local = dict(by_mod.get(m.name, {}))
        mod_alias = {}  # local name -> module name (import .x / from . import x)
        for n in ast.walk(m.tree):
            if isinstance(n, ast.ImportFrom):
                base = _resolve(m, n.level, n.module)
                for a in n.names:
                    if (base, a.name) in mod_consts:
                        local[a.asname or a.name] = mod_consts[(base, a.name)]
                    full = f"{base}.{a.name}" if base else a.name
                    if full in modules:
                        mod_alias[a.asname or a.name] = full
            elif isinstance(n, ast.Import):
                for a in n.names:
                    if a.name in modules:
                        mod_alias[a.asname or a.name.split(".")[0]] = a.name
        # names that are (re)bound in a function scope shadow the constant there: admitted constants have exactly one store in the package
        class T(ast.NodeTransformer):
            def visit_Name(self_, node):
                if isinstance(node.ctx, ast.Load) and node.id in local:
                    new = _copy(local[node.id])
                    return ast.copy_location(new, node)
                return node

            def visit_Attribute(self_, node):
                self_.generic_visit(node)
                if isinstance(node.ctx, ast.Load) and isinstance(node.value, ast.Name):
                    if node.value.id in mod_alias and (mod_alias[node.value.id], node.attr) in mod_consts:
                        return ast.copy_location(_copy(mod_consts[(mod_alias[node.value.id], node.attr)]), node)
                    cands = cls_names.get(node.attr, [])
                    if len(cands) == 1 and (node.value.id in ("self", "cls") or node.value.id == cands[0][0]):
                        return ast.copy_location(_copy(cands[0][1]), node)
                return node

        for top in m.tree.body:
            if isinstance(top, (ast.Assign, ast.AnnAssign)) and any(t in local for t in _targets(top)):
                continue  # the definition itself stays
            T().visit(top)
        ast.fix_missing_locations(m.tree)
    stats["constants"] = sorted({f"{a}.{b}" for a, b in mod_consts} | {f"{a}.{b}" for a, b in cls_consts})


def _resolve(m, level, module):
    if level:
        parts = m.name.split(".")
        if not getattr(m, "is_package", False):
            parts = parts[:-1]
        parts = parts[: len(parts) - (level - 1)] if level > 1 else parts
        return ".".join(parts + ([module] if module else []))
    return module or ""


# ---------------------------------------------------------------------------------------------------------------- N2
def _namedtuples(modules, known, stats):
    classes = {}  # class name -> (module, [fields], {field: default expr})
    for m in modules.values():
        kn = set(known.get(m.name, []))
        for n in m.tree.body:
            if isinstance(n, ast.ClassDef) and n.name not in kn and any(ast.unparse(b).split(".")[-1] == "NamedTuple" for b in n.bases):
                fields, defaults, ok = [], {}, True
                for k in n.body:
                    if isinstance(k, ast.AnnAssign) and isinstance(k.target, ast.Name):
                        fields.append(k.target.id)
                        if k.value is not None:
                            defaults[k.target.id] = k.value
                    elif isinstance(k, ast.Expr) and isinstance(k.value, ast.Constant):
                        continue
                    elif isinstance(k, ast.Pass):
                        continue
                    else:
                        ok = False
                if ok and fields:
                    classes[n.name] = (m.name, fields, defaults)
            elif isinstance(n, ast.Assign) and len(n.targets) == 1 and isinstance(n.targets[0], ast.Name) and n.targets[0].id not in kn and isinstance(n.value, ast.Call) and ast.unparse(n.value.func).split(".")[-1] == "namedtuple" and len(n.value.args) >= 2:
                spec = n.value.args[1]
                if isinstance(spec, (ast.List, ast.Tuple)) and all(isinstance(x, ast.Constant) and isinstance(x.value, str) for x in spec.elts):
                    classes[n.targets[0].id] = (m.name, [x.value for x in spec.elts], {})
                elif isinstance(spec, ast.Constant) and isinstance(spec.value, str):
                    classes[n.targets[0].id] = (m.name, spec.value.replace(",", " ").split(), {})
    if not classes:
        return
    # a class name must be unique in the package
    count = {}
    for m in modules.values():
        for x in ast.walk(m.tree):
            if isinstance(x, ast.ClassDef):
                count[x.name] = count.get(x.name, 0) + 1
    classes = {k: v for k, v in classes.items() if count.get(k, 0) <= 1}
    # attribute names that mean something else somewhere in the package
    other_attrs = set()
    for m in modules.values():
        for x in ast.walk(m.tree):
            if isinstance(x, ast.Attribute) and isinstance(x.ctx, ast.Store):
                other_attrs.add(x.attr)
            elif isinstance(x, ast.ClassDef) and x.name not in classes:
                for k in x.body:
                    if isinstance(k, (ast.FunctionDef, ast.AsyncFunctionDef)):
                        other_attrs.add(k.name)
                    for t in _targets(k):
                        other_attrs.add(t)
                    if isinstance(k, ast.AnnAssign) and isinstance(k.target, ast.Name):
                        other_attrs.add(k.target.id)
    field_owner = {}
    for cn, (mn, fields, _) in classes.items():
        for i, fl in enumerate(fields):
            field_owner.setdefault(fl, []).append((cn, i))
    unambiguous = {fl: own[0][1] for fl, own in field_owner.items() if len(own) == 1 and fl not in other_attrs}

    def ctor_to_tuple(call, cn):
        mn, fields, defaults = classes[cn]
        vals = {}
        if any(isinstance(a, ast.Starred) for a in call.args) or any(k.arg is None for k in call.keywords) or len(call.args) > len(fields):
            return None
        for fl, a in zip(fields, call.args):
            vals[fl] = a
        for k in call.keywords:
            if k.arg not in fields or k.arg in vals:
                return None
            vals[k.arg] = k.value
        elts = []
        for fl in fields:
            if fl in vals:
                elts.append(vals[fl])
            elif fl in defaults:
                elts.append(_copy(defaults[fl]))
            else:
                return None
        return ast.copy_location(ast.Tuple(elts=elts, ctx=ast.Load()), call)

    def is_ctor(e):
        return isinstance(e, ast.Call) and isinstance(e.func, ast.Name) and e.func.id in classes

    # functions all of whose returns are constructor calls of one class (or that are annotated with it)
    returns_nt = {}
    for m in modules.values():
        for x in ast.walk(m.tree):
            if isinstance(x, (ast.FunctionDef, ast.AsyncFunctionDef)):
                rets = [r.value for r in ast.walk(x) if isinstance(r, ast.Return) and r.value is not None]
                cns = {r.func.id for r in rets if is_ctor(r)}
                if rets and len(cns) == 1 and all(is_ctor(r) for r in rets):
                    returns_nt[x.name] = next(iter(cns))
                elif x.returns is not None and ast.unparse(x.returns).strip("'\"") in classes:
                    returns_nt[x.name] = ast.unparse(x.returns).strip("'\"")

    for m in modules.values():
        for fn in [x for x in ast.walk(m.tree) if isinstance(x, (ast.FunctionDef, ast.AsyncFunctionDef))]:
            # locals that only ever hold tuples of one class
            holds = {}
            lists = {}
            bad = set()
            for x in ast.walk(fn):
                if isinstance(x, ast.Assign) and len(x.targets) == 1 and isinstance(x.targets[0], ast.Name):
                    nm, v = x.targets[0].id, x.value
                    cn = None
                    if is_ctor(v):
                        cn = v.func.id
                    elif isinstance(v, ast.Call):
                        cal = v.func.attr if isinstance(v.func, ast.Attribute) else (v.func.id if isinstance(v.func, ast.Name) else None)
                        cn = returns_nt.get(cal)
                    if cn is not None:
                        if holds.setdefault(nm, cn) != cn:
                            bad.add(nm)
                    else:
                        if isinstance(v, (ast.List,)) and not v.elts:
                            lists.setdefault(nm, None)
                        else:
                            bad.add(nm)
                elif isinstance(x, ast.Call) and isinstance(x.func, ast.Attribute) and x.func.attr == "append" and isinstance(x.func.value, ast.Name) and len(x.args) == 1:
                    ln = x.func.value.id
                    if is_ctor(x.args[0]):
                        if lists.get(ln, x.args[0].func.id) not in (None, x.args[0].func.id):
                            lists[ln] = "?"
                        else:
                            lists[ln] = x.args[0].func.id
                    elif ln in lists:
                        lists[ln] = "?"
            for x in ast.walk(fn):
                if isinstance(x, ast.For) and isinstance(x.target, ast.Name) and isinstance(x.iter, ast.Name) and lists.get(x.iter.id) in classes:
                    if holds.setdefault(x.target.id, lists[x.iter.id]) != lists[x.iter.id]:
                        bad.add(x.target.id)
            for a in fn.args.posonlyargs + fn.args.args + fn.args.kwonlyargs:
                if a.annotation is not None and ast.unparse(a.annotation).strip("'\"") in classes:
                    holds.setdefault(a.arg, ast.unparse(a.annotation).strip("'\""))
            holds = {k: v for k, v in holds.items() if k not in bad or k in [a.arg for a in fn.args.args]}

            class T(ast.NodeTransformer):
                def visit_Attribute(self_, node):
                    self_.generic_visit(node)
                    if not isinstance(node.ctx, ast.Load):
                        return node
                    idx = None
                    if isinstance(node.value, ast.Name) and node.value.id in holds and node.attr in classes[holds[node.value.id]][1]:
                        idx = classes[holds[node.value.id]][1].index(node.attr)
                    elif node.attr in unambiguous:
                        idx = unambiguous[node.attr]
                    if idx is None:
                        return node
                    return ast.copy_location(ast.Subscript(value=node.value, slice=ast.Constant(value=idx), ctx=ast.Load()), node)

                def visit_FunctionDef(self_, node):
                    if node is fn:
                        self_.generic_visit(node)
                    return node

                visit_AsyncFunctionDef = visit_FunctionDef

            T().visit(fn)
        # constructor calls -> tuple displays (after the field accesses, which needed the constructor calls to type the locals)
        class C(ast.NodeTransformer):
            def visit_Call(self_, node):
                self_.generic_visit(node)
                if is_ctor(node):
                    t = ctor_to_tuple(node, node.func.id)
                    if t is not None:
                        return t
                return node

        C().visit(m.tree)
        ast.fix_missing_locations(m.tree)
    stats["namedtuples"] = sorted(classes)
