"""Rule bookkeeping: instances, obligations, findings keyed by rule + construct, known findings,
evidence files, exit codes (0 ok / 1 VIOLATION / 2 ANALYSIS-ERROR)."""
from __future__ import annotations

import ast
import hashlib
import json
import os
import time
from typing import Dict, List, Optional

from .model import AnalysisError, Func, norm

VERIF = os.path.dirname(os.path.dirname(os.path.abspath(__file__)))
KNOWN = os.path.join(VERIF, "known_findings.json")


def construct_text(node) -> str:
    """normalised text of a construct; compound statements are named by their header only so that edits
    to their bodies do not change finding keys"""
    if isinstance(node, str):
        return " ".join(node.split())
    if isinstance(node, (ast.For, ast.AsyncFor)):
        return f"for {norm(node.target)} in {norm(node.iter)}"
    if isinstance(node, ast.While):
        return f"while {norm(node.test)}"
    if isinstance(node, ast.If):
        return f"if {norm(node.test)}"
    if isinstance(node, (ast.With, ast.AsyncWith)):
        return "with " + ", ".join(norm(i) for i in node.items)
    if isinstance(node, (ast.FunctionDef, ast.AsyncFunctionDef)):
        return f"def {node.name}"
    if isinstance(node, ast.ClassDef):
        return f"class {node.name}"
    if isinstance(node, ast.Try):
        return "try"
    return norm(node)


class Finding:
    def __init__(self, rule, qual, construct, loc, message, witness=None):
        self.rule = rule
        self.qual = qual
        self.construct = construct_text(construct)
        self.loc = loc
        self.message = message
        self.witness = witness

    @property
    def key(self):
        return f"{self.rule}:{self.qual}:{self.construct}"

    def as_dict(self):
        return {"key": self.key, "rule": self.rule, "function": self.qual, "construct": self.construct, "loc": self.loc, "message": self.message, "witness": self.witness}


class RuleRun:
    def __init__(self, report, rid, text, min_instances):
        self.report = report
        self.id = rid
        self.text = text
        self.min_instances = min_instances
        self.instances: List[dict] = []
        self.obligations = 0
        self.discharged = 0
        self.findings: List[Finding] = []
        self.notes: List[str] = []

    def instance(self, func: Optional[Func], node, what=None):
        loc = func.loc(node) if func is not None and node is not None else (func.loc() if func else "?")
        d = {"loc": loc, "function": func.qual if func else None, "construct": what or (construct_text(node)[:160] if node is not None else None)}
        self.instances.append(d)
        return d

    def check(self, ok, func: Optional[Func], node, message, construct=None, witness=None):
        """one obligation; not ok => finding keyed by rule + function + normalised construct"""
        self.obligations += 1
        if ok:
            self.discharged += 1
            return True
        loc = func.loc(node) if func is not None and isinstance(node, ast.AST) else (func.loc() if func else "?")
        c = construct if construct is not None else (node if node is not None else message)
        self.findings.append(Finding(self.id, func.qual if func else "<program>", c, loc, message, witness))
        return False

    def note(self, s):
        self.notes.append(s)


class Report:
    def __init__(self, prop_id, tier, program):
        self.prop = prop_id
        self.tier = tier
        self.program = program
        self.rules: List[RuleRun] = []
        self.t0 = time.time()
        self.assumptions: List[str] = []
        self.not_decided: List[str] = []
        self.extra: Dict[str, object] = {}
        self.write_evidence = True

    def rule(self, rid, text, min_instances=1) -> RuleRun:
        r = RuleRun(self, rid, text, min_instances)
        self.rules.append(r)
        return r

    def assume(self, s):
        if s not in self.assumptions:
            self.assumptions.append(s)

    # ------------------------------------------------------------------
    def finish(self, level="other", explanation="", trusted_base=None, checker_cmd=None) -> int:
        # non-vacuity (a shortfall is an analysis error unless a violation already explains it)
        shortfall = [
            f"rule {r.id}: {len(r.instances)} instance(s) found, at least {r.min_instances} were confirmed by hand on the pinned tree - anchor vanished or idiom not recognised ({r.text[:80]})"
            for r in self.rules
            if len(r.instances) < r.min_instances
        ]
        known = load_known()
        open_keys = {k["key"]: k for k in known.get("open", []) if k.get("property") == self.prop}
        findings = [f for r in self.rules for f in r.findings]
        seen = set()
        uniq = []
        for f in findings:
            if f.key not in seen:
                seen.add(f.key)
                uniq.append(f)
        new = [f for f in uniq if f.key not in open_keys]
        matched = [f for f in uniq if f.key in open_keys]
        vdir = os.path.join(VERIF, "evidence", "violations", self.prop) if self.write_evidence else os.path.join("/tmp", "mhl_verif_scratch_violations", self.prop)
        lines = []
        for f in matched:
            lines.append(f"KNOWN-FINDING: property={self.prop} {f.key} at {f.loc}: {open_keys[f.key].get('what', f.message)[:220]}")
        for f in new:
            os.makedirs(vdir, exist_ok=True)
            p = os.path.join(vdir, hashlib.sha256(f.key.encode()).hexdigest()[:16] + ".json")
            rule = next(r for r in self.rules if r.id == f.rule)
            with open(p, "w") as fh:
                json.dump({"property": self.prop, **f.as_dict(), "rule_text": rule.text}, fh, indent=1)
            lines.append(f"VIOLATION property={self.prop} replay={p}")
            lines.append(f"  {f.loc} [{f.rule}] {f.qual}: {f.message}")
            lines.append(f"  construct: {f.construct[:200]}")
            if f.witness:
                lines.append(f"  witness: {str(f.witness)[:400]}")
        obligations = sum(r.obligations for r in self.rules)
        discharged = sum(r.discharged for r in self.rules)
        evaluations = sum(len(r.instances) for r in self.rules)
        distinct = len({(r.id, i["function"], i["construct"]) for r in self.rules for i in r.instances if r.obligations > 0})
        samples = []
        for r in self.rules:
            for i in r.instances[:3]:
                samples.append({"rule": r.id, **i})
        ev = {
            "property_id": self.prop,
            "tier": self.tier,
            "seed": int(os.environ.get("VERIF_SEED", "0") or 0),
            "level": level,
            "coverage": {
                "obligations": obligations,
                "discharged": discharged,
                "evaluations": evaluations,
                "distinct_nontrivial": distinct,
                "rule": "one evaluation = one rule instance (a construct of /repo found by role: loop, call site, write site, builder, option ...); "
                "distinct = distinct (rule, function, normalised construct) triples of rules that carry at least one obligation",
                "samples": samples[:40],
                "explanation": explanation,
                "exhaustive": True,
                "rules": [
                    {"id": r.id, "text": r.text, "instances": len(r.instances), "min_instances": r.min_instances, "obligations": r.obligations, "discharged": r.discharged, "notes": r.notes[:20]}
                    for r in self.rules
                ],
                "analysed": self.program.analysed_summary(),
                "known_findings_matched": [f.key for f in matched],
                "not_decided": self.not_decided,
                **self.extra,
            },
            "assumptions": self.assumptions,
            "wall_s": round(time.time() - self.t0, 3),
            "violations": len(new),
        }
        if level == "proof":
            ev["coverage"]["checker_cmd"] = checker_cmd or ""
            ev["coverage"]["trusted_base"] = trusted_base or []
        ev["coverage"]["program_view"] = "helper-inlined" if getattr(self.program, "inline_from", None) is not None else "plain"
        if getattr(self.program, "inline_stats", None):
            ev["coverage"]["helpers_inlined"] = {k: v["inlined"] for k, v in self.program.inline_stats.items()}
        self.evidence_obj = ev
        if self.write_evidence and not getattr(self, "defer_evidence", False):
            self.flush_evidence()
        for r in self.rules:
            print(f"[{self.prop}] {r.id}: {len(r.instances)} instance(s), {r.discharged}/{r.obligations} obligations discharged")
        for l in lines:
            print(l)
        if new:
            return 1
        if shortfall:
            raise AnalysisError("; ".join(shortfall))
        print(f"[{self.prop}] OK: {discharged}/{obligations} obligations over {evaluations} rule instances ({len(matched)} known finding(s))")
        return 0


def _flush(self):
    if getattr(self, "evidence_obj", None) is None or not self.write_evidence:
        return
    os.makedirs(os.path.join(VERIF, "evidence"), exist_ok=True)
    with open(os.path.join(VERIF, "evidence", f"{self.prop}.json"), "w") as fh:
        json.dump(self.evidence_obj, fh, indent=1, default=str)


Report.flush_evidence = _flush


def load_known():
    if not os.path.exists(KNOWN):
        return {"open": [], "fixed": []}
    with open(KNOWN) as fh:
        return json.load(fh)
