"""Effects table: classification of every external call target of the package into
file-system-MUTATING / file-system-READING / NETWORK / PURE; anything else is UNCLASSIFIED (fails closed)."""
from __future__ import annotations

import ast
from typing import List, Optional, Tuple

from .model import Func, Program, norm

OS_MUT = {
    "mkdir", "makedirs", "remove", "unlink", "rmdir", "removedirs", "rename", "renames", "replace", "truncate", "utime",
    "chmod", "chown", "lchown", "lchmod", "link", "symlink", "mkfifo", "mknod", "open", "write", "ftruncate", "fchmod",
    "fchown", "chflags", "setxattr", "removexattr", "system", "popen", "startfile", "execv", "execl", "spawnl", "fork",
    "posix_spawn", "copy_file_range", "sendfile", "pwrite", "writev",
}
PATH_MUT = {
    "write_text", "write_bytes", "mkdir", "touch", "unlink", "rename", "replace", "rmdir", "chmod", "lchmod", "symlink_to",
    "hardlink_to", "link_to", "open",
}
MUT_MODULE_PREFIX = ("shutil.", "tempfile.", "subprocess.", "os.system", "os.popen", "distutils.", "fileinput.", "sqlite3.", "shelve.", "dbm.", "pickle.dump", "json.dump", "logging.FileHandler", "logging.handlers.", "zipfile.", "tarfile.", "mmap.")

OS_READ = {"listdir", "scandir", "walk", "stat", "lstat", "getcwd", "access", "readlink", "fspath", "getenv", "cpu_count", "getpid", "fwalk"}
OSPATH_READ = {"exists", "isdir", "isfile", "islink", "getsize", "getmtime", "getctime", "getatime", "realpath", "samefile", "ismount", "lexists", "expanduser", "abspath"}
OSPATH_PURE = {"join", "dirname", "basename", "normpath", "relpath", "isabs", "splitext", "split", "commonpath", "commonprefix", "normcase", "splitdrive", "sep", "expandvars"}

PURE_PREFIX = (
    "hashlib.", "xxhash.", "binascii.", "lxml.builder.", "click.", "datetime.", "time.", "textwrap.", "re.", "dateutil.",
    "pathspec.", "platform.", "threading.", "packaging.", "collections.", "timeit.", "typing.", "enum.", "abc.", "itertools.",
    "functools.", "operator.", "math.", "string.", "copy.", "importlib_metadata.", "importlib.metadata.", "pathlib.PurePosixPath",
    "pathlib.PureWindowsPath", "pathlib.PurePath", "sys.stdout", "sys.stderr", "sys.exit", "base64.", "struct.", "zlib.", "codecs.encode", "codecs.decode",
    "unicodedata.", "locale.", "calendar.", "zoneinfo.", "uuid.", "random.", "secrets.", "json.loads", "json.dumps", "getpass.getuser", "socket.gethostname",
)
PURE_BUILTINS = {
    "len", "str", "int", "sorted", "set", "list", "dict", "tuple", "range", "type", "super", "repr", "hasattr", "isinstance", "iter", "next",
    "print", "ord", "chr", "bool", "bytes", "bytearray", "float", "min", "max", "sum", "any", "all", "enumerate", "zip", "map", "filter", "reversed",
    "abs", "round", "divmod", "format", "hash", "id", "callable", "issubclass", "frozenset", "slice", "object", "getattr", "hex", "oct", "bin", "pow",
    "AssertionError", "ValueError", "TypeError", "KeyError", "IndexError", "RuntimeError", "Exception", "NotImplementedError", "OSError", "IOError", "StopIteration",
    "FileNotFoundError", "AttributeError", "memoryview", "vars_disallowed",
}
# methods of builtin containers / strings / bytes / numbers / datetime / lxml elements that touch no file
PURE_METHODS = {
    "append", "extend", "add", "discard", "remove_disallowed", "pop", "sort", "copy", "clear", "update", "get", "items", "keys", "values", "setdefault",
    "insert", "index", "count", "reverse", "union", "intersection", "difference", "issubset", "issuperset", "symmetric_difference",
    "format", "join", "ljust", "rjust", "startswith", "endswith", "split", "rsplit", "strip", "rstrip", "lstrip", "lower", "upper", "encode", "decode",
    "zfill", "find", "rfind", "partition", "rpartition", "splitlines", "isdigit", "isalpha", "title", "capitalize", "casefold", "center", "expandtabs",
    "to_bytes", "from_bytes", "bit_length", "hex", "fromhex", "isoformat", "strftime", "astimezone", "timestamp", "utcoffset", "date", "time", "total_seconds", "timetuple",
    "__len__", "getparent", "getprevious", "getnext", "iter", "findall", "find_disallowed", "hexdigest", "digest", "intdigest", "match_file", "match_files", "as_posix",
    "json", "raise_for_status", "abort", "validate", "is_devrelease", "is_prerelease", "tzname", "dst", "weekday", "isocalendar", "toordinal", "translate", "maketrans", "swapcase",
    "removeprefix", "removesuffix", "isspace", "isupper", "islower", "elements", "most_common",
}
# method names that only path-like objects carry and that only query the file system
UNK_READ_METHODS = {"exists", "is_dir", "is_file", "is_symlink", "resolve", "absolute", "iterdir", "stat", "lstat", "samefile", "read_text", "read_bytes", "expanduser", "is_mount", "readlink"}
FILE_METHODS_READ = {"read", "readline", "readlines", "close", "seek", "tell", "__enter__", "__exit__", "fileno", "readinto", "peek", "readable", "seekable", "closed"}
FILE_METHODS_WRITE = {"write", "writelines", "flush", "truncate"}


def open_mode(program: Program, call: ast.Call, func: Func) -> Optional[str]:
    """folded mode of an open(...) call; 'r' when absent; None when not constant"""
    mode_expr = None
    if len(call.args) > 1:
        mode_expr = call.args[1]
    for kw in call.keywords:
        if kw.arg == "mode":
            mode_expr = kw.value
    if mode_expr is None:
        return "r"
    v = program.fold(mode_expr, func)
    return v if isinstance(v, str) else None


def classify(program: Program, call: ast.Call, target: str, func: Func) -> Tuple[str, str]:
    """returns (class, detail) with class in MUT | READ | NET | PURE | IOW (write on an already-open handle) | INTERNAL | UNCLASSIFIED"""
    t = target
    if t in program.funcs or t.startswith("class:"):
        return "INTERNAL", t
    if t.startswith("pure:"):
        return "PURE", t
    if t.startswith("builtin:"):
        b = t[8:]
        if b == "open":
            mode = open_mode(program, call, func)
            if mode is None:
                return "UNCLASSIFIED", "open() with a non-constant mode"
            if any(c in mode for c in "wax+"):
                return "MUT", f"open(mode={mode!r})"
            return "READ", f"open(mode={mode!r})"
        if b in PURE_BUILTINS:
            return "PURE", b
        if b in ("exec", "eval", "compile", "__import__", "input", "breakpoint", "setattr", "delattr", "globals", "locals", "vars"):
            return "UNCLASSIFIED", b
        return "UNCLASSIFIED", "builtin " + b
    if t.startswith("builtinm:"):
        m = t.split(".")[-1]
        if m in PURE_METHODS or m in ("remove",):
            return "PURE", t
        return "UNCLASSIFIED", t
    if t.startswith("ext:"):
        q = t[4:]
        if q.split(".")[0] in ("dict", "list", "set", "tuple", "object", "str", "int", "Exception", "frozenset", "bytes") and len(q.split(".")) == 2 and (q.split(".")[1].startswith("__") or q.split(".")[1] in PURE_METHODS):
            return "PURE", q  # super().__init__() etc. of a builtin base class
        if q.startswith("requests.") or q.startswith("urllib.") or q.startswith("http.") or q.startswith("socket.") and not q.endswith("gethostname"):
            return "NET", q
        if q.startswith("os.path."):
            n = q.split(".")[-1]
            if n in OSPATH_READ:
                return "READ", q
            if n in OSPATH_PURE:
                return "PURE", q
            return "UNCLASSIFIED", q
        if q.startswith("os."):
            n = q.split(".")[-1]
            if n in OS_MUT:
                return "MUT", q
            if n in OS_READ:
                return "READ", q
            return "UNCLASSIFIED", q
        if q.startswith(MUT_MODULE_PREFIX) or q in ("logging.basicConfig",) and any(k.arg in ("filename", "handlers") for k in call.keywords):
            return "MUT", q
        if q.startswith("lxml.etree."):
            n = q.split(".")[-1]
            if n in ("parse", "iterparse"):
                return "READ", q
            if n in ("tostring", "XMLSchema", "fromstring", "Element", "SubElement", "XMLParser", "QName", "XML", "tounicode", "indent", "strip_tags", "cleanup_namespaces"):
                return "PURE", q
            return "UNCLASSIFIED", q
        if q in ("pathlib.Path",) or q.startswith("pathlib.Path."):
            return ("PURE", q) if q == "pathlib.Path" or q.split(".")[-1] not in PATH_MUT else ("MUT", q)
        if q in ("glob.glob", "glob.iglob"):
            return "READ", q
        if q in ("glob.escape", "glob.has_magic") or q.startswith("fnmatch."):
            return "PURE", q
        if q == "io.open" or q == "codecs.open":
            mode = open_mode(program, call, func)
            if mode is None or any(c in mode for c in "wax+"):
                return "MUT", f"{q}(mode={mode!r})"
            return "READ", q
        if q.startswith(PURE_PREFIX):
            return "PURE", q
        if q.startswith("logging.") or q.startswith("warnings."):
            return "PURE", q
        return "UNCLASSIFIED", q
    if t.startswith("extm:"):
        # method on the result of an external call, e.g. open().write, pathlib.Path().touch
        base, _, meth = t[5:].rpartition(".")
        if base.startswith("open()") or base.startswith("io.open()"):
            if meth in FILE_METHODS_READ:
                return "READ", t
            if meth in FILE_METHODS_WRITE:
                return "IOW", t
            return "UNCLASSIFIED", t
        if base.startswith("pathlib.Path()") or base.startswith("pathlib.Path."):
            if meth in PATH_MUT:
                return "MUT", t
            if meth in ("read_text", "read_bytes", "exists", "is_dir", "is_file", "iterdir", "glob", "rglob", "stat", "resolve", "is_symlink"):
                return "READ", t
            if meth in PURE_METHODS or meth in ("with_suffix", "with_name", "joinpath", "relative_to", "parts", "parent", "name", "stem", "suffix", "is_absolute"):
                return "PURE", t
            return "UNCLASSIFIED", t
        if "ElementTree" in base or base.startswith("lxml.etree.parse()"):
            if meth in ("write", "write_c14n"):
                return "MUT", t
        if meth in PATH_MUT and meth not in ("replace", "open", "rename") and not base.startswith(("lxml.", "hashlib.", "xxhash.")):
            return "MUT", t
        if base.startswith("requests."):
            return "PURE", t
        if base.startswith("lxml.builder.") and meth in ("set", "append", "extend", "insert", "get", "find", "findall", "iter", "remove", "clear", "addnext", "addprevious", "getparent", "items", "keys", "values"):
            return "PURE", t  # in-memory element tree
        if meth in PURE_METHODS or meth in ("write", "replace", "clear", "append", "sort", "read", "close", "flush", "now", "start", "join"):
            # write/read on a non-file external object (e.g. a hash object) – only file handles come from open()
            if meth in ("write", "read", "close", "flush") and not base.startswith(("hashlib.", "xxhash.", "lxml.")):
                return "UNCLASSIFIED", t
            return "PURE", t
        return "UNCLASSIFIED", t
    if t.startswith("unk:"):
        m = t[4:]
        if m in PATH_MUT and m not in ("replace", "open", "rename"):
            return "UNCLASSIFIED", f"method .{m}() on a receiver of unknown type could be a pathlib mutation"
        if m in ("replace", "rename"):
            if len(call.args) == 1 and not call.keywords:
                return "UNCLASSIFIED", f".{m}(x) with one positional argument on a receiver of unknown type could be Path.{m}"
            return "PURE", t
        if m in ("write", "writelines", "truncate"):
            return "UNCLASSIFIED", f".{m}() on a receiver of unknown type"
        if m in PURE_METHODS or m in ("add_command", "result_callback", "command", "group", "option", "argument", "value", "name", "read", "close", "flush", "open_disallowed"):
            return "PURE", t
        if m in program.method_names:
            return "INTERNAL", t
        if m in UNK_READ_METHODS:
            return "READ", t
        return "UNCLASSIFIED", f"method .{m}() on a receiver of unknown type"
    if t.startswith("modvar:"):
        return "UNCLASSIFIED", t
    if t.startswith("call-of:"):
        return "UNCLASSIFIED", t
    return "UNCLASSIFIED", t


def site_effects(program: Program, fq: str) -> List[Tuple[ast.Call, str, str, str]]:
    """(call, target, class, detail) for every non-internal call site in function fq"""
    out = []
    f = program.funcs[fq]
    for call, tg in program.calls.get(fq, []):
        for t in tg:
            cls, det = classify(program, call, t, f)
            if cls != "INTERNAL":
                out.append((call, t, cls, det))
    return out
