"""Helper inlining: a semantics-preserving source-to-source normalisation on the parsed trees.

Extracting a block into a private helper is the most common behaviour-preserving refactoring, and most rules are written
against the shape of the function that does the work. This pass rebuilds that shape: calls of *private* (underscore)
helpers of the same module are replaced by the helper's body, with parameters bound by assignments and `return`
turned into structured control flow. The helper functions themselves stay in the program.

The checker uses the inlined view as a second, equivalent representation of the same program: a property that is
discharged on either view is discharged (both denote the same behaviour); violations are reported from the plain view.

Only shapes that can be inlined exactly are inlined; anything else is left as a call:
  call contexts   `h(..)` as a statement, `x = h(..)`, `return h(..)`, `if h(..):` / `if not h(..):`, `for t in g(..):` (generator)
  callee          same module, name starts with '_' (not dunder), resolved to exactly one function, no *args/**kwargs, no nested
                  def, no global/nonlocal, no return inside try, only constant defaults used, not recursive (depth <= 3)
  generator       exactly one `yield <value>` statement, no `return`; caller body may `continue` only if the yield ends its
                  loop body, may `break` only if the yield's single loop is the generator's last top-level statement
"""
from __future__ import annotations

import ast
import copy
from typing import Dict, List, Optional, Tuple

MAX_DEPTH = 3

# Private helpers of the tree the rules were written against. The rules know this decomposition (several are anchored on these
# helpers by role), so they are left as calls; every OTHER private helper - i.e. one introduced by a later restructuring - is
# inlined, which gives the rules back the shape they know. (Removing one of these helpers by hand-inlining it is not normalised
# here: rules anchored on it then answer "cannot analyse", never a verdict.)
KNOWN_HELPERS = {
    "_append_new_generation_to_file", "_append_patterns_from_file", "_append_patterns_list", "_ascmhlreference_xml_element",
    "_compare_and_log_directory_hashes", "_creator_info_xml_element", "_directory_hash_xml_element", "_find_and_load_child_histories",
    "_generation_from_line_in_chainfile", "_get_latest_version", "_hashlist_xml_element_from_chaingeneration",
    "_hashlist_xml_element_from_hashlist", "_ignore_xml_element", "_ignorespec_xml_element", "_line_for_chainfile",
    "_media_hash_xml_element", "_new_custom_filename", "_new_generation_filename", "_process_info_xml_element",
    "_resolve_hash_list_references", "_root_media_hash_xml_element", "_update_child_history_mapping", "_validate_new_hash_list",
    "_write_xml_element_to_file", "_write_xml_string_to_file",
}
# public functions / methods of that tree (by simple name): never inlined either. Any function that is in neither set was
# introduced by a later restructuring and is a candidate.
KNOWN_PUBLIC = {
    "add_detected_failure_for_format", "append_child_history", "append_directory_hashes", "append_file_hash", "append_generation",
    "append_hash", "append_hash_entry", "append_hash_list", "append_hash_list_reference", "append_multiple_format_directory_hashes",
    "append_multiple_format_file_hashes", "bytes_for_hash_string", "bytes_from_string_digest", "commit", "commit_session",
    "commit_session_for_collection", "convert_local_path_to_posix", "convert_posix_to_local_path", "create", "create_collection_at_path",
    "create_dummy_file_structure", "create_dummy_folder", "create_for_folder_subcommand", "create_for_single_files_subcommand",
    "datetime_isostring", "datetime_now_filename_string", "datetime_now_isostring", "datetime_now_isostring_with_microseconds", "debug",
    "default_ignore_list", "diff", "diff_entire_folder_against_full_history_subcommand", "error", "fatal", "final_content_hash_str",
    "final_structure_hash_str", "find_directory_hash_entries_for_path", "find_existing_hash_formats_for_path",
    "find_first_hash_entry_for_path", "find_hash_entry_for_format", "find_history_for_path", "find_media_hash_for_path",
    "find_or_create_media_hash_for_path", "find_original_hash_entry_for_path", "flatten", "flatten_history", "generate_reference_hash",
    "get_file_name", "get_path_spec", "get_pattern_list", "get_relative_file_path", "get_root_path", "hash", "hash_data", "hash_file",
    "hash_list_with_file_name", "hash_of_hash_list", "hashlib_type", "info", "info_for_entire_history", "info_for_single_file",
    "latest_generation_number", "latest_ignore_patterns", "list_commands", "load_from_packing_list_path", "load_from_path", "log",
    "log_child_histories", "log_hash_entry", "matches_prefixes", "mhldebugtool_cli", "mhldevtool_cli", "mhltool_cli",
    "multiple_format_hash_data", "multiple_format_hash_file", "needs_update", "new_hasher_for_hash_type", "parse",
    "post_order_lexicographic", "readchainfile", "readmhlfile", "readmhlhistory", "renamed_path_with_previous_path", "run",
    "seal_file_path", "set_of_file_paths", "set_patterns", "string_digest", "summary", "test_for_missing_files", "update", "verbose",
    "verify", "verify_directory_hash_subcommand", "verify_entire_folder", "walk_child_histories", "write_chain", "write_hash_list",
    "write_new_generation", "xsd_schema_check",
}


def _is_candidate_name(nm: str) -> bool:
    if nm.startswith("__") and nm.endswith("__"):
        return False
    if nm in KNOWN_HELPERS or nm in KNOWN_PUBLIC:
        return False
    # a helper that merges / generalises known helpers under a shortened name (`_append_patterns` for `_append_patterns_list` + `_append_patterns_from_file`)
    # plays their role: the rules anchored on that role look for the call, so it stays a call
    if len(nm) >= 8 and any(k.startswith(nm) for k in KNOWN_HELPERS):
        return False
    return True


class _Refuse(Exception):
    pass


def _pos(n):
    # a node that was substituted for a helper call carries the place of that call; call resolution looks it up where it was written
    rp = getattr(n, "_res_pos", None)
    if rp is not None:
        return rp
    return (n.lineno, n.col_offset, getattr(n, "end_lineno", None), getattr(n, "end_col_offset", None))


def _names_bound(fn: ast.FunctionDef) -> set:
    out = set()
    a = fn.args
    for x in a.posonlyargs + a.args + a.kwonlyargs:
        out.add(x.arg)
    for n in ast.walk(fn):
        if isinstance(n, ast.Name) and isinstance(n.ctx, (ast.Store, ast.Del)):
            out.add(n.id)
        elif isinstance(n, ast.ExceptHandler) and n.name:
            out.add(n.name)
    return out


def _names_used(nodes) -> set:
    out = set()
    for s in nodes:
        for n in ast.walk(s):
            if isinstance(n, ast.Name):
                out.add(n.id)
            elif isinstance(n, ast.arg):
                out.add(n.arg)
    return out


def _has(node_or_list, types) -> bool:
    items = node_or_list if isinstance(node_or_list, list) else [node_or_list]
    for it in items:
        stack = [it]
        while stack:
            n = stack.pop()
            if isinstance(n, types):
                return True
            if isinstance(n, (ast.FunctionDef, ast.AsyncFunctionDef, ast.ClassDef, ast.Lambda)) and n is not it:
                continue
            stack.extend(ast.iter_child_nodes(n))
    return False


def _always_returns(block: List[ast.stmt]) -> bool:
    if not block:
        return False
    last = block[-1]
    if isinstance(last, (ast.Return, ast.Raise)):
        return True
    if isinstance(last, ast.If):
        return _always_returns(last.body) and _always_returns(last.orelse)
    return False


class Inliner:
    def __init__(self, p0, module):
        """p0: plain Program (for call resolution); module: a sa.model.Module whose tree will be rewritten in place"""
        self.p0 = p0
        self.m = module
        self.counter = 0
        # parent links would make every deepcopy of a node copy the whole module; they are rebuilt after the pass
        for n in ast.walk(module.tree):
            n.__dict__.pop("_parent", None)
        self.stats = {"inlined": 0, "refused": {}}
        # resolution of call sites of this module by position
        self.res: Dict[tuple, List[str]] = {}
        for fq, f in p0.funcs.items():
            if f.module.name != module.name:
                continue
            for call, tg in p0.calls.get(fq, []):
                self.res[_pos(call)] = tg
        # definitions of this module in the NEW tree, by position of the def in the old one
        self.defs: Dict[str, ast.FunctionDef] = {}
        oldpos = {(_pos(f.node)): fq for fq, f in p0.funcs.items() if f.module.name == module.name}
        for n in ast.walk(module.tree):
            if isinstance(n, ast.FunctionDef) and _pos(n) in oldpos:
                self.defs[oldpos[_pos(n)]] = n
        self.pristine = {q: copy.deepcopy(n) for q, n in self.defs.items()}

    # ------------------------------------------------------------------ driver
    def run(self):
        for q, fn in list(self.defs.items()):
            f0 = self.p0.funcs[q]
            if f0.outer is not None:
                continue
            self._host_q = q
            fn.body = self.block(fn.body, fn, [q], 0)
            self._forward_result_variables(fn)
        ast.fix_missing_locations(self.m.tree)
        return self.stats

    def _forward_result_variables(self, fn):
        """`obj.field = helper(..)` was expanded to `__ret__h = V1 | V2 | ...` at the helper's return points followed by `obj.field = __ret__h`:
        when the result variable is read only there and `obj.field` is a plain attribute chain on a local that the expanded body does not re-bind,
        the values are stored where they are produced (`obj.field = V1` ...), which is the shape the helper was extracted from"""
        def blocks(stmts):
            yield stmts
            for st in stmts:
                for fld in ("body", "orelse", "finalbody"):
                    sub = getattr(st, fld, None)
                    if isinstance(sub, list) and sub and isinstance(sub[0], ast.stmt) and not isinstance(st, (ast.FunctionDef, ast.AsyncFunctionDef, ast.ClassDef)):
                        yield from blocks(sub)
                for h in getattr(st, "handlers", []) or []:
                    yield from blocks(h.body)

        for blk in list(blocks(fn.body)):
            for st in list(blk):
                if not (isinstance(st, ast.Assign) and len(st.targets) == 1 and isinstance(st.value, ast.Name) and st.value.id.startswith("__ret__")):
                    continue
                tgt = st.targets[0]
                base = tgt
                while isinstance(base, ast.Attribute):
                    base = base.value
                if not (isinstance(tgt, ast.Attribute) and isinstance(base, ast.Name)):
                    continue
                rv = st.value.id
                reads = [n for n in ast.walk(fn) if isinstance(n, ast.Name) and n.id == rv and isinstance(n.ctx, ast.Load)]
                if len(reads) != 1:
                    continue
                stores = [a for a in ast.walk(fn) if isinstance(a, ast.Assign) and len(a.targets) == 1 and isinstance(a.targets[0], ast.Name) and a.targets[0].id == rv]
                other_stores = [n for n in ast.walk(fn) if isinstance(n, ast.Name) and n.id == rv and isinstance(n.ctx, ast.Store)]
                if len(stores) != len(other_stores) or not stores:
                    continue
                # the base object must be the same object at every store: not re-bound anywhere between (conservatively: bound at most once in the function)
                if sum(1 for n in ast.walk(fn) if isinstance(n, ast.Name) and n.id == base.id and isinstance(n.ctx, ast.Store)) > 1:
                    continue
                for a in stores:
                    a.targets = [copy.deepcopy(tgt)]
                blk.remove(st)

    def block(self, stmts: List[ast.stmt], host: ast.FunctionDef, stack: List[str], depth: int) -> List[ast.stmt]:
        out = []
        for s in stmts:
            # sub-blocks first
            for fld in ("body", "orelse", "finalbody"):
                if isinstance(s, (ast.If, ast.For, ast.While, ast.With, ast.Try)) and getattr(s, fld, None):
                    setattr(s, fld, self.block(getattr(s, fld), host, stack, depth))
            if isinstance(s, ast.Try):
                for h in s.handlers:
                    h.body = self.block(h.body, host, stack, depth)
            rep = self.try_inline(s, host, stack, depth)
            if rep is None:
                before = self.stats["inlined"]
                self.inline_expressions(s, stack, depth)
                # an expression helper that stood for a call of a statement helper (`def load(p): return require(parse(p), p)`): the statement
                # now shows that call, try once more
                rep2 = self.try_inline(s, host, stack, depth) if self.stats["inlined"] > before else None
                if rep2 is None:
                    out.append(s)
                else:
                    out.extend(rep2)
            else:
                out.extend(rep)
        return out

    # ------------------------------------------------------------------ expression helpers:  def _h(a, b): return <expr>
    def inline_expressions(self, s, stack, depth):
        """calls of single-expression helpers inside the expressions of statement `s` (not in its sub-blocks) are replaced by the
        helper's expression with the (simple) arguments substituted"""
        me = self
        self._cur_stmt = s

        class T(ast.NodeTransformer):
            def generic_visit(self_, node):
                # do not descend into nested statement blocks: they are handled by block()
                for field, old in ast.iter_fields(node):
                    if isinstance(old, list):
                        if old and isinstance(old[0], ast.stmt):
                            continue
                        new_values = []
                        for v in old:
                            if isinstance(v, ast.AST):
                                v = self_.visit(v)
                                if v is None:
                                    continue
                            new_values.append(v)
                        old[:] = new_values
                    elif isinstance(old, ast.AST):
                        new_node = self_.visit(old)
                        if new_node is None:
                            delattr(node, field)
                        else:
                            setattr(node, field, new_node)
                return node

            nest = []

            def visit_Call(self_, node):
                self_.generic_visit(node)
                r = me._expr_helper(node, list(stack) + list(self_.nest), depth)
                if r is None:
                    return node
                # helper calls inside the expression that was just substituted (label helpers calling label helpers)
                q = getattr(r, "_inlined_from", None)
                if q is not None and len(self_.nest) < 4:
                    self_.nest.append(q)
                    try:
                        r = self_.visit(r)
                    finally:
                        self_.nest.pop()
                return r

        T().visit(s)
        for n in ast.walk(s):
            if isinstance(n, ast.JoinedStr):
                flat = []
                for v in n.values:
                    if isinstance(v, ast.FormattedValue) and isinstance(v.value, ast.JoinedStr) and v.conversion == -1 and v.format_spec is None:
                        flat.extend(v.value.values)
                    else:
                        flat.append(v)
                n.values = flat

    def _expr_helper(self, call, stack, depth):
        if not hasattr(call, "lineno"):
            return None
        tg = self.res.get(_pos(call))
        if not tg:
            return None
        quals = [t for t in tg if t in self.p0.funcs]
        if len(quals) != 1 or len([t for t in tg if not t.startswith("class:")]) != 1:
            return None
        q = quals[0]
        h0 = self.p0.funcs[q]
        nm = h0.name
        if getattr(call, "_foreign", False) or not _is_candidate_name(nm) or q in stack:
            return None
        if h0.outer is not None:
            # a single-expression closure: a plain `def` directly in the body of the function being rewritten, bound once, called after its definition;
            # its free variables are the host's locals, read at call time in both forms - unless a comprehension at the call site binds one of them
            host_q = getattr(self, "_host_q", None)
            hostdef = self.defs.get(host_q) if host_q is not None else None
            if hostdef is None or h0.outer.qual != host_q or h0.outer.outer is not None:
                return None
            defs_ = [st for st in hostdef.body if isinstance(st, ast.FunctionDef) and st.name == h0.name]
            rebinds = [n for n in ast.walk(hostdef) if isinstance(n, ast.Name) and n.id == h0.name and isinstance(n.ctx, (ast.Store, ast.Del))]
            others = [n for n in ast.walk(hostdef) if isinstance(n, (ast.FunctionDef, ast.ClassDef)) and n.name == h0.name and n not in defs_]
            if len(defs_) != 1 or rebinds or others or defs_[0].decorator_list or call.lineno <= defs_[0].lineno:
                return None
            cur = getattr(self, "_cur_stmt", None)
            if cur is None:
                return None
            comp_bound = {t.id for c_ in ast.walk(cur) if isinstance(c_, ast.comprehension) for t in ast.walk(c_.target) if isinstance(t, ast.Name)} | {c_.target.id for c_ in ast.walk(cur) if isinstance(c_, ast.NamedExpr) and isinstance(c_.target, ast.Name)}
            own = {x.arg for x in defs_[0].args.posonlyargs + defs_[0].args.args}
            free = {n.id for n in ast.walk(defs_[0]) if isinstance(n, ast.Name)} - own
            if free & comp_bound or _has(defs_[0].body, (ast.Nonlocal, ast.Global)):
                return None
        if h0.module.name != self.m.name and q not in self.pristine:
            # a single-expression helper of another module: only if every global name it uses means the same thing here
            if not self._foreign_compatible(h0):
                return None
            fn = copy.deepcopy(h0.node)
            for n in ast.walk(fn):
                n.__dict__.pop("_parent", None)
                n._foreign = True  # type: ignore[attr-defined]
            self.pristine[q] = fn
        if q not in self.pristine:
            return None
        hdef = self.pristine[q]
        body = hdef.body
        if body and isinstance(body[0], ast.Expr) and isinstance(body[0].value, ast.Constant) and isinstance(body[0].value.value, str):
            body = body[1:]
        if len(body) != 1 or not isinstance(body[0], ast.Return) or body[0].value is None:
            return None
        a = hdef.args
        if a.vararg or a.kwarg or a.kwonlyargs or any(isinstance(x, ast.Starred) for x in call.args) or call.keywords and any(k.arg is None for k in call.keywords):
            return None
        if any(d for d in h0.decorators if not d.endswith(("staticmethod", "classmethod"))):
            return None
        params = [x.arg for x in a.posonlyargs + a.args]
        subst = {}
        if h0.cls is not None and not h0.is_static:
            if not isinstance(call.func, ast.Attribute):
                return None
            subst[params[0]] = call.func.value
            params = params[1:]
        if len(call.args) > len(params):
            return None
        for pn, av in zip(params, call.args):
            subst[pn] = av
        for k in call.keywords:
            if k.arg not in params or k.arg in subst:
                return None
            subst[k.arg] = k.value
        defaults = dict(zip([x.arg for x in (a.posonlyargs + a.args)[len(a.posonlyargs + a.args) - len(a.defaults):]], a.defaults))
        for pn in params:
            if pn not in subst:
                d = defaults.get(pn)
                if d is None or not isinstance(d, ast.Constant):
                    return None
                subst[pn] = d
        expr = copy.deepcopy(body[0].value)
        uses = {}
        for n in ast.walk(expr):
            if isinstance(n, ast.Name) and n.id in subst:
                uses[n.id] = uses.get(n.id, 0) + 1
        for pn, av in subst.items():
            if not self._simple_arg(av) and uses.get(pn, 0) != 1:
                return None  # a non-trivial argument would be evaluated a different number of times
        if _has(expr, (ast.Lambda, ast.ListComp, ast.SetComp, ast.DictComp, ast.GeneratorExp, ast.NamedExpr, ast.Yield, ast.Await)):
            # comprehension variables could capture argument names
            if {n.id for av in subst.values() for n in ast.walk(av) if isinstance(n, ast.Name)} & {n.id for n in ast.walk(expr) if isinstance(n, ast.Name) and isinstance(n.ctx, ast.Store)}:
                return None
        wrapper = ast.Expr(value=expr)
        wrapper = self._substitute(wrapper, subst)
        new = wrapper.value
        if hasattr(new, "lineno") and not getattr(new, "_foreign", False):
            new._res_pos = _pos(new)  # type: ignore[attr-defined]
        ast.copy_location(new, call)
        for n in ast.walk(new):
            if not hasattr(n, "lineno"):
                ast.copy_location(n, call)
            n._inlined_from = q  # type: ignore[attr-defined]
        self.stats["inlined"] += 1
        return new

    # ------------------------------------------------------------------ one statement
    def try_inline(self, s, host, stack, depth) -> Optional[List[ast.stmt]]:
        call, ctx = None, None
        if isinstance(s, ast.Expr) and isinstance(s.value, ast.Call):
            call, ctx = s.value, "expr"
        elif isinstance(s, ast.Assign) and len(s.targets) == 1 and isinstance(s.value, ast.Call):
            call, ctx = s.value, "assign"
        elif isinstance(s, ast.Return) and isinstance(s.value, ast.Call):
            call, ctx = s.value, "return"
        elif isinstance(s, ast.If) and isinstance(s.test, ast.Call):
            call, ctx = s.test, "if"
        elif isinstance(s, ast.If) and isinstance(s.test, ast.UnaryOp) and isinstance(s.test.op, ast.Not) and isinstance(s.test.operand, ast.Call):
            call, ctx = s.test.operand, "ifnot"
        elif isinstance(s, ast.For) and isinstance(s.iter, ast.Call):
            call, ctx = s.iter, "for"
        elif isinstance(s, ast.With) and len(s.items) == 1 and isinstance(s.items[0].context_expr, ast.Call):
            call, ctx = s.items[0].context_expr, "with"
        if call is None:
            hoisted = self.hoist_nested(s, host, stack, depth)
            return hoisted
        q = self._eligible_stmt_helper(call)
        if q is None or q in stack or depth >= MAX_DEPTH:
            return self.hoist_nested(s, host, stack, depth)
        h0 = self.p0.funcs[q]
        try:
            return self.expand(s, call, ctx, q, h0, host, stack, depth)
        except _Refuse as e:
            self.stats["refused"][f"{q} at line {call.lineno}"] = str(e)
            return None

    def _eligible_stmt_helper(self, call):
        if getattr(call, "_foreign", False) or not hasattr(call, "lineno"):
            return None
        tg = self.res.get(_pos(call))
        if not tg:
            return None
        quals = [t for t in tg if t in self.p0.funcs]
        if len(quals) != 1 or len([t for t in tg if not t.startswith("class:")]) != 1:
            return None
        q = quals[0]
        h0 = self.p0.funcs[q]
        if not _is_candidate_name(h0.name):
            return None
        if h0.outer is not None:
            # a closure: only a plain `def` directly in the body of the function being rewritten, bound once, called after its definition
            # (its free variables are the host's locals, read at call time in both forms)
            host_q = getattr(self, "_host_q", None)
            if host_q is None or h0.outer.qual != host_q or h0.outer.outer is not None:
                return None
            hostdef = self.defs.get(host_q)
            if hostdef is None:
                return None
            defs_ = [st for st in hostdef.body if isinstance(st, ast.FunctionDef) and st.name == h0.name]
            rebinds = [n for n in ast.walk(hostdef) if isinstance(n, ast.Name) and n.id == h0.name and isinstance(n.ctx, (ast.Store, ast.Del))]
            others = [n for n in ast.walk(hostdef) if isinstance(n, (ast.FunctionDef, ast.ClassDef)) and n.name == h0.name and n not in defs_]
            if len(defs_) != 1 or rebinds or others or defs_[0].decorator_list or call.lineno <= defs_[0].lineno:
                return None
        if h0.module.name == self.m.name:
            return q if q in self.pristine else None
        # a helper of another module (function or method): only if every global name its body uses means the same thing in this module
        if q not in self.pristine:
            if not self._foreign_compatible(h0):
                return None
            fn = copy.deepcopy(h0.node)
            for n in ast.walk(fn):
                n.__dict__.pop("_parent", None)
                n._foreign = True  # type: ignore[attr-defined]
            self.pristine[q] = fn
        return q

    def _foreign_compatible(self, h0) -> bool:
        hm, me = h0.module, self.p0.modules.get(self.m.name)
        if me is None:
            return False
        bound = _names_bound(h0.node)
        builtins_ = set(dir(__builtins__)) if not isinstance(__builtins__, dict) else set(__builtins__)
        for n in [x for st in h0.node.body for x in ast.walk(st)]:
            if isinstance(n, ast.Name) and n.id not in bound and n.id not in builtins_:
                a, b = hm.imports.get(n.id), me.imports.get(n.id)
                if a is not None and a == b:
                    continue
                # a module-level definition of the helper's module, imported under the same name here
                if a is None and b == hm.name + "." + n.id:
                    continue
                return False
        return True

    def hoist_nested(self, s, host, stack, depth):
        """`recv.m(a, helper(..))` / `x = f(helper(..))`: the helper call is an argument of the statement's top-level call and everything
        evaluated before it is a plain name / attribute / constant -> `__tmp = helper(..)` in front (then inlined as an assignment)"""
        top = None
        holder, fld = s, "value"
        if isinstance(s, ast.AugAssign):
            while isinstance(getattr(holder, fld), ast.UnaryOp):
                holder, fld = getattr(holder, fld), "operand"  # `x += not helper(..)`: the unary operator is applied to the finished result
        if isinstance(s, ast.AugAssign) and isinstance(s.target, ast.Name) and isinstance(getattr(holder, fld), ast.Call) and depth < MAX_DEPTH:
            # `x += helper(..)` with a local name x (which the helper cannot touch):  __arg = helper(..); x += __arg
            av = getattr(holder, fld)
            q = self._eligible_stmt_helper(av)
            if q is None or q in stack or _has(self.pristine[q].body, (ast.Yield, ast.YieldFrom)):
                return None
            self.counter += 1
            tmp = f"__arg{self.counter}"
            assign = self._at(ast.Assign(targets=[ast.Name(id=tmp, ctx=ast.Store())], value=av), av)
            setattr(holder, fld, self._at(ast.Name(id=tmp, ctx=ast.Load()), av))
            rep = self.try_inline(assign, host, stack, depth)
            if rep is None:
                setattr(holder, fld, av)
                return None
            return rep + [s]
        if isinstance(s, ast.Expr) and isinstance(s.value, ast.Call):
            top = s.value
        elif isinstance(s, (ast.Assign, ast.Return)) and isinstance(s.value, ast.Call):
            top = s.value
        elif isinstance(s, ast.For) and isinstance(s.iter, ast.Call):
            top = s.iter  # for x in sorted(helper(..), key=..): the iterable is evaluated once, before the loop
        if top is None or depth >= MAX_DEPTH:
            return None
        if not self._simple_arg(top.func):
            return None
        for i, av in enumerate(top.args):
            if isinstance(av, ast.Call):
                q = self._eligible_stmt_helper(av)
                if q is None or q in stack:
                    return None
                hdef = self.pristine[q]
                body = hdef.body[1:] if (hdef.body and isinstance(hdef.body[0], ast.Expr) and isinstance(hdef.body[0].value, ast.Constant) and isinstance(hdef.body[0].value.value, str)) else hdef.body
                if len(body) == 1 and isinstance(body[0], ast.Return):
                    return None  # expression helper: handled in place
                if _has(hdef.body, (ast.Yield, ast.YieldFrom)):
                    return None
                self.counter += 1
                tmp = f"__arg{self.counter}"
                assign = self._at(ast.Assign(targets=[ast.Name(id=tmp, ctx=ast.Store())], value=av), av)
                top.args[i] = self._at(ast.Name(id=tmp, ctx=ast.Load()), av)
                rep = self.try_inline(assign, host, stack, depth)
                if rep is None:
                    top.args[i] = av  # undo
                    return None
                last = rep[-1] if rep else None
                if isinstance(last, ast.Assign) and len(last.targets) == 1 and isinstance(last.targets[0], ast.Name) and last.targets[0].id == tmp and self._simple_arg(last.value):
                    top.args[i] = last.value  # the helper's result is already a plain name: no temporary needed
                    rep = rep[:-1]
                return rep + [s]
            if not self._simple_arg(av):
                return None
        return None

    # ------------------------------------------------------------------ expansion
    def expand(self, s, call, ctx, q, h0, host, stack, depth):
        hdef = copy.deepcopy(self.pristine[q])
        is_cm = any(d in ("contextlib.contextmanager", "contextmanager") for d in h0.decorators)
        if any(d for d in h0.decorators if not d.endswith(("staticmethod", "classmethod")) and d not in ("contextlib.contextmanager", "contextmanager")):
            raise _Refuse("decorated")
        if is_cm != (ctx == "with"):
            raise _Refuse("context manager only in a with statement (and vice versa)")
        a = hdef.args
        if a.vararg or a.kwarg:
            raise _Refuse("*args/**kwargs")
        if any(isinstance(x, ast.Starred) for x in call.args) or any(k.arg is None for k in call.keywords):
            raise _Refuse("star arguments")
        if _has(hdef.body, (ast.FunctionDef, ast.AsyncFunctionDef, ast.ClassDef, ast.Global, ast.Nonlocal, ast.Await)):
            raise _Refuse("nested definitions / global")
        is_gen = _has(hdef.body, (ast.Yield, ast.YieldFrom))
        if ctx == "for" and not is_gen:
            ctx = "foriter"  # a plain function whose result is iterated: inline it in front of the loop
        if is_gen != (ctx in ("for", "with")):
            raise _Refuse("generator only as a for-iterable")
        for t in [n for st in hdef.body for n in ast.walk(st) if isinstance(n, ast.Try)]:
            if _has(t.body + t.orelse + t.finalbody + [x for h in t.handlers for x in h.body], (ast.Return, ast.Yield, ast.YieldFrom)):
                if ctx == "with" and not t.handlers and not t.orelse and not _has(t.finalbody, (ast.Return, ast.Yield, ast.YieldFrom)) and not _has(t.body, ast.Return):
                    continue  # try: yield ... finally: ...  of a context manager
                raise _Refuse("return/yield inside try")
        body = hdef.body
        if body and isinstance(body[0], ast.Expr) and isinstance(body[0].value, ast.Constant) and isinstance(body[0].value.value, str):
            body = body[1:]  # docstring
        # ---- parameter binding
        params = [x.arg for x in a.posonlyargs + a.args]
        binds: List[Tuple[str, ast.expr]] = []
        recv = call.func.value if isinstance(call.func, ast.Attribute) else None
        is_method = h0.cls is not None
        if is_method and not h0.is_static:
            if recv is None:
                raise _Refuse("method called without receiver")
            first = params[0]
            params = params[1:]
            if h0.is_classmethod:
                binds.append((first, recv))
            else:
                binds.append((first, recv))
        pos_args = list(call.args)
        if len(pos_args) > len(params):
            raise _Refuse("too many positional arguments")
        given = {}
        for pn, av in zip(params, pos_args):
            given[pn] = av
            binds.append((pn, av))
        kwonly = [x.arg for x in a.kwonlyargs]
        for k in call.keywords:
            if k.arg not in params + kwonly or k.arg in given:
                raise _Refuse("keyword does not match a parameter")
            given[k.arg] = k.value
            binds.append((k.arg, k.value))
        defaults = {}
        pos_all = a.posonlyargs + a.args
        for pa, d in zip(pos_all[len(pos_all) - len(a.defaults):], a.defaults):
            defaults[pa.arg] = d
        for pa, d in zip(a.kwonlyargs, a.kw_defaults):
            if d is not None:
                defaults[pa.arg] = d
        for pn in params + kwonly:
            if pn in given:
                continue
            d = defaults.get(pn)
            if d is None:
                raise _Refuse(f"parameter {pn} not bound")
            if not (isinstance(d, ast.Constant) or (isinstance(d, ast.Name) and d.id.isupper()) or (isinstance(d, ast.Name) and d.id.startswith("_"))):
                raise _Refuse(f"non-constant default for {pn}")
            binds.append((pn, copy.deepcopy(d)))
        # ---- simple arguments are substituted instead of bound (keeps the text the helper was extracted from)
        body_stores = {n.id for st in body for n in ast.walk(st) if isinstance(n, ast.Name) and isinstance(n.ctx, (ast.Store, ast.Del))}
        store_texts = {ast.unparse(t) for st in body for n in ast.walk(st) if isinstance(n, (ast.Assign, ast.AugAssign, ast.AnnAssign)) for t in (n.targets if isinstance(n, ast.Assign) else [n.target])}
        subst = {}
        for pn, av in binds:
            if pn in body_stores:
                continue
            if self._simple_arg(av) and not ({n.id for n in ast.walk(av) if isinstance(n, ast.Name)} & body_stores) and ast.unparse(av) not in store_texts:
                subst[pn] = av
        if subst:
            body = [self._substitute(st, subst) for st in body]
        binds = [(pn, av) for pn, av in binds if pn not in subst]
        # ---- renaming on clash
        locals_h = _names_bound(hdef) - set(subst)
        stored_params = body_stores
        host_names = _names_used(host.body) | {x.arg for x in host.args.posonlyargs + host.args.args + host.args.kwonlyargs}
        self.counter += 1
        suffix = f"__{h0.name.strip('_')}{self.counter}"
        rename = {}
        same_name_args = set()
        for pn, av in binds:
            if isinstance(av, ast.Name) and av.id == pn and pn not in stored_params:
                same_name_args.add(pn)  # the very same variable under the same name
        # `N = helper(..)` where every return of the helper is `return N`: the helper's N *is* the host's N - either a local the helper
        # builds, or a parameter that was passed the host's N itself (x = f(x))
        result_alias = None
        alias_set = set()
        rets_ = [n for st in body for n in ast.walk(st) if isinstance(n, ast.Return)]
        if ctx == "assign":
            tgt0 = s.targets[0]
            tnames = [tgt0.id] if isinstance(tgt0, ast.Name) else ([e.id for e in tgt0.elts] if isinstance(tgt0, ast.Tuple) and all(isinstance(e, ast.Name) for e in tgt0.elts) else None)

            def ret_names(r):
                v = r.value
                if isinstance(v, ast.Name):
                    return [v.id]
                if isinstance(v, ast.Tuple) and all(isinstance(e, ast.Name) for e in v.elts):
                    return [e.id for e in v.elts]
                return None

            def ret_ok(r):
                # `return N` (the aliased name) or, for a single name, `return <constant>` (becomes `N = <constant>`)
                return ret_names(r) == tnames or (len(tnames) == 1 and isinstance(r.value, ast.Constant))

            # `T1, T2 = helper(..)` where every return is `return a, b` (locals of the helper): a IS T1 and b IS T2 - rename them, so that the
            # host's names denote the objects from where they are created (no copy step between the creation and the use the rules look at)
            if tnames and len(set(tnames)) == len(tnames) and rets_ and not all(ret_ok(r) for r in rets_):
                rns = [ret_names(r) for r in rets_]
                all_params_ = {x.arg for x in a.posonlyargs + a.args + a.kwonlyargs}
                arg_names_ = {n.id for _, av_ in binds for n in ast.walk(av_) if isinstance(n, ast.Name)}
                used_ = _names_used(body)
                if rns[0] is not None and all(r_ == rns[0] for r_ in rns) and len(rns[0]) == len(tnames) and len(set(rns[0])) == len(rns[0]) and all(rn in locals_h and rn not in all_params_ for rn in rns[0]) and all((tn == rn) or (tn not in used_ and tn not in arg_names_ and tn not in all_params_) for tn, rn in zip(tnames, rns[0])):
                    ren_ = {rn: tn for tn, rn in zip(tnames, rns[0]) if tn != rn}
                    for st in body:
                        for n in ast.walk(st):
                            if isinstance(n, ast.Name) and n.id in ren_:
                                n.id = ren_[n.id]
                    locals_h = (locals_h - set(ren_)) | set(ren_.values())
            if tnames and len(set(tnames)) == len(tnames) and rets_ and all(ret_ok(r) for r in rets_) and any(ret_names(r) == tnames for r in rets_):
                all_params = {x.arg for x in a.posonlyargs + a.args + a.kwonlyargs}
                ok_alias = True
                for tn in tnames:
                    arg_names = {n.id for pn_, av_ in binds for n in ast.walk(av_) if isinstance(n, ast.Name) and not (pn_ == tn and isinstance(av_, ast.Name) and av_.id == tn)}
                    if tn not in locals_h or tn in arg_names:
                        ok_alias = False
                    elif tn in all_params and not any(pn_ == tn and isinstance(av_, ast.Name) and av_.id == tn for pn_, av_ in binds):
                        ok_alias = False
                if ok_alias:
                    alias_set = set(tnames)
                    result_alias = tnames[0]
                    same_name_args |= alias_set
        for nme in locals_h:
            if nme in same_name_args or nme in alias_set:
                continue
            if nme in host_names:
                rename[nme] = nme + suffix
        if rename:
            for st in body:
                for n in ast.walk(st):
                    if isinstance(n, ast.Name) and n.id in rename:
                        n.id = rename[n.id]
                    elif isinstance(n, ast.ExceptHandler) and n.name in rename:
                        n.name = rename[n.name]
        pre: List[ast.stmt] = []
        bound_so_far = set()
        for pn, av in binds:
            if pn in same_name_args:
                continue
            if {n.id for n in ast.walk(av) if isinstance(n, ast.Name)} & bound_so_far:
                raise _Refuse("an argument expression reads a name that an earlier parameter binding overwrites")
            bound_so_far.add(rename.get(pn, pn))
            tgt = ast.Name(id=rename.get(pn, pn), ctx=ast.Store())
            pre.append(self._at(ast.Assign(targets=[tgt], value=av, lineno=call.lineno), call))
        # ---- body
        if ctx == "for":
            new = pre + self.expand_generator(s, body, call)
        elif ctx == "with":
            new = pre + self.expand_context_manager(s, body, call)
        elif ctx in ("if", "ifnot") and self._bool_continuation_ok(body):
            # every return is a boolean constant outside loops: the branches of the host's `if` move to the return sites
            t_branch, f_branch = (s.body, s.orelse) if ctx == "if" else (s.orelse, s.body)
            new = pre + self._structured(body, None, False, call, cont={True: t_branch, False: f_branch})
        else:
            needs_value = ctx != "expr"
            retvar = f"__ret{suffix}"
            # `T = helper(..)`: the returns can assign the host's target directly when the helper does not use that name itself
            if ctx == "assign" and isinstance(s.targets[0], ast.Name) and result_alias is None and s.targets[0].id not in _names_used(body):
                retvar = s.targets[0].id
            if ctx == "assign" and isinstance(s.targets[0], ast.Name) and result_alias == s.targets[0].id:
                retvar = result_alias  # `return N` becomes the no-op `N = N` (dropped below), `return None` becomes `N = None`
            conv, direct = self.convert_returns(body, retvar, needs_value, call)
            new = pre + conv
            val = direct if direct is not None else ast.Name(id=retvar, ctx=ast.Load())
            if ctx == "assign":
                if not (ast.unparse(val) == ast.unparse(s.targets[0]) or (isinstance(val, ast.Tuple) and isinstance(s.targets[0], ast.Tuple) and [ast.unparse(e) for e in val.elts] == [ast.unparse(e) for e in s.targets[0].elts])):
                    tg0 = s.targets[0]
                    split = False
                    if len(s.targets) == 1 and isinstance(tg0, ast.Tuple) and isinstance(val, ast.Tuple) and len(tg0.elts) == len(val.elts) and all(isinstance(e, ast.Name) for e in tg0.elts):
                        # `T1, T2 = (e1, e2)`: one statement per element (same order of evaluation) when no target is read by a later element
                        tnames_ = [e.id for e in tg0.elts]
                        safe = True
                        for i_, e_ in enumerate(val.elts):
                            reads_ = {n.id for n in ast.walk(e_) if isinstance(n, ast.Name)}
                            if reads_ & set(tnames_[:i_]):
                                safe = False
                        if safe and len(set(tnames_)) == len(tnames_):
                            for t_, e_ in zip(tg0.elts, val.elts):
                                if not (isinstance(e_, ast.Name) and e_.id == t_.id):
                                    new.append(self._at(ast.Assign(targets=[self._store(t_)], value=e_), s))
                            split = True
                    if not split:
                        new.append(self._at(ast.Assign(targets=s.targets, value=val), s))
            elif ctx == "return":
                new.append(self._at(ast.Return(value=val), s))
            elif ctx == "if":
                s.test = val
                new.append(s)
            elif ctx == "ifnot":
                s.test.operand = val
                new.append(s)
            elif ctx == "foriter":
                s.iter = val
                new.append(s)
        for st in new:
            for n in ast.walk(st):
                if not hasattr(n, "_inlined_from"):
                    n._inlined_from = q  # type: ignore[attr-defined]
        self.stats["inlined"] += 1
        # nested helpers inside the inlined body
        return self.block(new, host, stack + [q], depth + 1) if depth + 1 < MAX_DEPTH else new

    @staticmethod
    def _simple_arg(e) -> bool:
        """an expression that can be repeated: a name, a constant, an attribute chain on a name, a constant-index subscript of those"""
        if isinstance(e, (ast.Name, ast.Constant)):
            return True
        if isinstance(e, ast.Attribute):
            return Inliner._simple_arg(e.value)
        if isinstance(e, ast.Subscript) and isinstance(e.slice, ast.Constant):
            return Inliner._simple_arg(e.value)
        return False

    def _substitute(self, st, subst):
        class T(ast.NodeTransformer):
            def visit_Name(self_, n):
                if n.id in subst and isinstance(n.ctx, ast.Load):
                    new = copy.deepcopy(subst[n.id])
                    return ast.copy_location(new, n)
                return n

        return T().visit(st)

    def _bool_continuation_ok(self, body) -> bool:
        rets = [n for st in body for n in self._walk_stmts(st) if isinstance(n, ast.Return)]
        if not rets or len(rets) > 4:
            return False
        if not all(isinstance(r.value, ast.Constant) and isinstance(r.value.value, bool) for r in rets):
            return False
        if any(self._inside(r, body, (ast.For, ast.While, ast.With, ast.Try)) for r in rets):
            return False
        return self._structured_ok(body) and _always_returns(body)

    def _at(self, node, where):
        ast.copy_location(node, where)
        for n in ast.walk(node):
            if not hasattr(n, "lineno"):
                ast.copy_location(n, where)
        return node

    # ------------------------------------------------------------------ returns
    def convert_returns(self, body, retvar, needs_value, call):
        """-> (statements, direct value expression or None)"""
        rets = [n for st in body for n in self._walk_stmts(st) if isinstance(n, ast.Return)]
        # (1) single trailing return (or none)
        if not rets:
            return list(body), (self._at(ast.Constant(value=None), call) if needs_value else None)
        if len(rets) == 1 and body and body[-1] is rets[0]:
            rest = list(body[:-1])
            v = rets[0].value if rets[0].value is not None else self._at(ast.Constant(value=None), call)
            if needs_value:
                return rest, v
            if _has(v, (ast.Call,)):
                rest.append(self._at(ast.Expr(value=v), rets[0]))
            return rest, None
        le = self._loop_else(body, rets, retvar, needs_value, call)
        if le is not None:
            return le, None
        in_loop_or_with = any(self._inside(r, body, (ast.For, ast.While, ast.With)) for r in rets)
        if not in_loop_or_with and self._structured_ok(body):
            return self._structured(body, retvar, needs_value, call), None
        # (3) flag mode
        self.counter += 1
        flag = f"__done{self.counter}"
        pre = [self._at(ast.Assign(targets=[ast.Name(id=flag, ctx=ast.Store())], value=ast.Constant(value=False)), call)]
        if needs_value:
            pre.append(self._at(ast.Assign(targets=[ast.Name(id=retvar, ctx=ast.Store())], value=ast.Constant(value=None)), call))
        return pre + self._flagged(body, retvar, flag, needs_value, 0, call), None

    def _loop_else(self, body, rets, retvar, needs_value, call):
        """[prelude..., <loop with returns, no own break, no else>, optional trailing `return E`]  ->
        the loop with `return X` replaced by `retvar = X; break` and `else: retvar = E` (search-loop idiom)"""
        if not body:
            return None
        tail = body[-1] if isinstance(body[-1], ast.Return) else None
        core = body[:-1] if tail is not None else body
        if not core or not isinstance(core[-1], (ast.For, ast.While)):
            return None
        loop = core[-1]
        inner = [r for r in rets if r is not tail]
        if not inner or loop.orelse or any(_has(st, ast.Return) for st in core[:-1]):
            return None
        if self._has_own(loop.body, ast.Break):
            return None
        # every inner return belongs directly to this loop (not to a nested loop / with / try)
        for r in inner:
            if self._inside(r, loop.body, (ast.For, ast.While, ast.With, ast.Try)):
                return None

        def conv(stmts):
            out = []
            for st in stmts:
                if isinstance(st, ast.Return):
                    out += self._ret_assign(st, retvar, needs_value)
                    out.append(self._at(ast.Break(), st))
                    return out
                if isinstance(st, ast.If):
                    st.body = conv(st.body) or [self._at(ast.Pass(), st)]
                    st.orelse = conv(st.orelse)
                out.append(st)
            return out

        loop.body = conv(loop.body)
        if tail is not None:
            loop.orelse = self._ret_assign(tail, retvar, needs_value)
        elif needs_value:
            loop.orelse = [self._at(ast.Assign(targets=[ast.Name(id=retvar, ctx=ast.Store())], value=ast.Constant(value=None)), call)]
        return list(core)

    def _walk_stmts(self, st):
        yield st
        for fld in ("body", "orelse", "finalbody"):
            for c in getattr(st, fld, []) or []:
                if isinstance(c, ast.stmt):
                    yield from self._walk_stmts(c)
        for h in getattr(st, "handlers", []) or []:
            for c in h.body:
                yield from self._walk_stmts(c)

    def _inside(self, target, body, types):
        def rec(stmts, inside):
            for st in stmts:
                if st is target:
                    return inside
                for fld in ("body", "orelse", "finalbody"):
                    sub = getattr(st, fld, None)
                    if sub and isinstance(sub, list) and sub and isinstance(sub[0], ast.stmt):
                        r = rec(sub, inside or isinstance(st, types))
                        if r is not None:
                            return r
                for h in getattr(st, "handlers", []) or []:
                    r = rec(h.body, inside)
                    if r is not None:
                        return r
            return None

        return bool(rec(body, False))

    def _ret_assign(self, r, retvar, needs_value):
        v = r.value if r.value is not None else self._at(ast.Constant(value=None), r)
        if needs_value and isinstance(v, ast.Name) and v.id == retvar:
            return []
        if needs_value:
            return [self._at(ast.Assign(targets=[ast.Name(id=retvar, ctx=ast.Store())], value=v), r)]
        if _has(v, (ast.Call,)):
            return [self._at(ast.Expr(value=v), r)]
        return []

    def _structured_ok(self, stmts) -> bool:
        for i, st in enumerate(stmts):
            if isinstance(st, ast.Return):
                return True
            if not _has(st, ast.Return):
                continue
            if not isinstance(st, ast.If):
                return False
            rest = stmts[i + 1:]
            bf, of = not _always_returns(st.body), not _always_returns(st.orelse)
            if bf and of and rest and (_has(st.body, ast.Return) and _has(st.orelse, ast.Return)):
                return False
            # a branch that may return but not always, with a non-empty rest, needs the rest in it: allow only if the other branch always returns or has no return
            if not self._structured_ok(st.body + (rest if bf else [])) or not self._structured_ok(st.orelse + (rest if of else [])):
                return False
            if bf and of and rest:
                # rest would be duplicated into both branches
                return False
            return True
        return True

    def _structured(self, stmts, retvar, needs_value, call, cont=None):
        """cont: {True: statements, False: statements} - continuation placed at each boolean-constant return site"""
        out = []
        for i, st in enumerate(stmts):
            if isinstance(st, ast.Return):
                if cont is not None:
                    return out + (copy.deepcopy(cont[st.value.value]) or [])
                return out + self._ret_assign(st, retvar, needs_value)
            if isinstance(st, ast.If) and _has(st, ast.Return):
                rest = stmts[i + 1:]
                bf, of = not _always_returns(st.body), not _always_returns(st.orelse)
                b = self._structured(st.body + (rest if bf else []), retvar, needs_value, call, cont)
                o = self._structured(st.orelse + (rest if of else []), retvar, needs_value, call, cont) if (st.orelse or (of and rest)) else []
                if not st.orelse and not (of and rest) and needs_value:
                    o = [self._at(ast.Assign(targets=[ast.Name(id=retvar, ctx=ast.Store())], value=ast.Constant(value=None)), call)]
                new_if = self._at(ast.If(test=st.test, body=b or [self._at(ast.Pass(), st)], orelse=o), st)
                return out + [new_if]
            out.append(st)
        if needs_value:
            out.append(self._at(ast.Assign(targets=[ast.Name(id=retvar, ctx=ast.Store())], value=ast.Constant(value=None)), call))
        return out

    def _flagged(self, stmts, retvar, flag, needs_value, loop_depth, call):
        out = []
        for i, st in enumerate(stmts):
            if isinstance(st, ast.Return):
                out += self._ret_assign(st, retvar, needs_value)
                out.append(self._at(ast.Assign(targets=[ast.Name(id=flag, ctx=ast.Store())], value=ast.Constant(value=True)), st))
                if loop_depth > 0:
                    out.append(self._at(ast.Break(), st))
                return out
            if not _has(st, ast.Return):
                out.append(st)
                continue
            if isinstance(st, ast.If):
                st.body = self._flagged(st.body, retvar, flag, needs_value, loop_depth, call) or [self._at(ast.Pass(), st)]
                st.orelse = self._flagged(st.orelse, retvar, flag, needs_value, loop_depth, call)
            elif isinstance(st, (ast.For, ast.While)):
                st.body = self._flagged(st.body, retvar, flag, needs_value, loop_depth + 1, call)
                st.orelse = self._flagged(st.orelse, retvar, flag, needs_value, loop_depth, call)
            elif isinstance(st, ast.With):
                st.body = self._flagged(st.body, retvar, flag, needs_value, loop_depth, call)
            else:
                raise _Refuse(f"return inside {type(st).__name__}")
            out.append(st)
            rest = stmts[i + 1:]
            is_loop = isinstance(st, (ast.For, ast.While))
            if loop_depth > 0:
                if is_loop or isinstance(st, ast.With):
                    out.append(self._at(ast.If(test=ast.Name(id=flag, ctx=ast.Load()), body=[ast.Break()], orelse=[]), st))
                out += self._flagged(rest, retvar, flag, needs_value, loop_depth, call)
            elif rest:
                guarded = self._flagged(rest, retvar, flag, needs_value, loop_depth, call)
                out.append(self._at(ast.If(test=ast.UnaryOp(op=ast.Not(), operand=ast.Name(id=flag, ctx=ast.Load())), body=guarded, orelse=[]), st))
            return out
        return out

    # ------------------------------------------------------------------ generators
    def expand_generator(self, loop: ast.For, body, call):
        if loop.orelse:
            raise _Refuse("for-else over a generator helper")
        ys = [n for st in body for n in ast.walk(st) if isinstance(n, (ast.Yield, ast.YieldFrom))]
        if _has(body, ast.Return):
            raise _Refuse("return in generator helper")
        if len(ys) != 1 or isinstance(ys[0], ast.YieldFrom) or ys[0].value is None:
            raise _Refuse("generator helper does not have exactly one `yield <value>`")
        y = ys[0]
        # locate the yield statement and its chain of enclosing statements
        chain = self._chain_to(body, y)
        if chain is None:
            raise _Refuse("yield not in statement position")
        ystmt = chain[-1][0][chain[-1][1]]
        if not (isinstance(ystmt, ast.Expr) and ystmt.value is y):
            raise _Refuse("yield value is used")
        loops = [blk_owner for (_, _, blk_owner) in chain if isinstance(blk_owner, (ast.For, ast.While))]
        cbody = loop.body
        own_loops = (ast.For, ast.While)
        has_break = self._has_own(cbody, ast.Break)
        has_cont = self._has_own(cbody, ast.Continue)
        if (has_break or has_cont) and not loops:
            raise _Refuse("break/continue in the caller's body but the yield is not in a loop")
        if has_cont or has_break:
            # the yield must end its loop body: it and every enclosing If are the last statement of their block up to the loop
            for blk, idx, owner in reversed(chain):
                if idx != len(blk) - 1:
                    raise _Refuse("continue/break in the caller's body but statements follow the yield")
                if isinstance(owner, own_loops):
                    if owner.orelse:
                        raise _Refuse("loop-else in generator helper")
                    break
        if has_break:
            if len(loops) != 1 or not (body and body[-1] is loops[0]):
                raise _Refuse("break in the caller's body: the yield's loop is not the helper's single last statement")
        blk, idx, _ = chain[-1]
        if isinstance(loop.target, ast.Name) and isinstance(y.value, ast.Name) and y.value.id != loop.target.id and not any(isinstance(n, ast.Name) and isinstance(n.ctx, ast.Store) and n.id == loop.target.id for st in cbody for n in ast.walk(st)) and not any(isinstance(n, ast.Name) and n.id == loop.target.id for st in body for n in ast.walk(st)):
            # `for x in gen(): BODY` with `yield v` (v a local of the generator, x not assigned in BODY): v simply IS x - rename instead of aliasing,
            # so that rules which follow the value from where it is produced to where it is consumed see one variable
            old_name, new_name = y.value.id, loop.target.id
            for st in body:
                for n in ast.walk(st):
                    if isinstance(n, ast.Name) and n.id == old_name:
                        n.id = new_name
            blk[idx:idx + 1] = cbody
            return body
        if isinstance(loop.target, ast.Tuple) and isinstance(y.value, ast.Tuple) and len(loop.target.elts) == len(y.value.elts) and all(isinstance(e, ast.Name) for e in loop.target.elts + y.value.elts) and len({e.id for e in y.value.elts}) == len(y.value.elts) and len({e.id for e in loop.target.elts}) == len(loop.target.elts):
            # `for a, b in gen(): BODY` with `yield u, v`: element-wise the same renaming
            tnames = [e.id for e in loop.target.elts]
            vnames = [e.id for e in y.value.elts]
            stored_in_cbody = {n.id for st in cbody for n in ast.walk(st) if isinstance(n, ast.Name) and isinstance(n.ctx, ast.Store)}
            used_in_gen = {n.id for st in body for n in ast.walk(st) if isinstance(n, ast.Name)}
            if all(t_ == v_ or (t_ not in stored_in_cbody and t_ not in used_in_gen) for t_, v_ in zip(tnames, vnames)):
                ren = {v_: t_ for t_, v_ in zip(tnames, vnames) if t_ != v_}
                for st in body:
                    for n in ast.walk(st):
                        if isinstance(n, ast.Name) and n.id in ren:
                            n.id = ren[n.id]
                blk[idx:idx + 1] = cbody
                return body
        bind = self._at(ast.Assign(targets=[self._store(loop.target)], value=y.value), loop)
        blk[idx:idx + 1] = [bind] + cbody
        return body

    def expand_context_manager(self, w: ast.With, body, call):
        """@contextmanager helper:  PRE; [try:] yield V [finally: POST]; REST   used as   with helper(..) as T: BODY
        ->  PRE; T = V; [try:] BODY [finally: POST]; REST      (an exception in BODY is raised at the yield: exactly these semantics)"""
        ys = [n for st in body for n in ast.walk(st) if isinstance(n, (ast.Yield, ast.YieldFrom))]
        if len(ys) != 1 or isinstance(ys[0], ast.YieldFrom) or _has(body, ast.Return):
            raise _Refuse("context manager helper does not have exactly one yield (or returns)")
        y = ys[0]
        chain = self._chain_to(body, y)
        if chain is None:
            raise _Refuse("yield not in statement position")
        # the yield sits at the helper's top level or directly in the body of top-level try/finally blocks - not in loops or ifs
        for blk, idx, owner in chain:
            if owner is not None and not isinstance(owner, ast.Try):
                raise _Refuse("yield of the context manager inside a loop / condition")
        blk, idx, _ = chain[-1]
        bind = []
        tgt = w.items[0].optional_vars
        if tgt is not None:
            v = y.value if y.value is not None else self._at(ast.Constant(value=None), w)
            bind = [self._at(ast.Assign(targets=[self._store(tgt)], value=v), w)]
        blk[idx:idx + 1] = bind + w.body
        return body

    def _store(self, t):
        t = copy.deepcopy(t)
        for n in ast.walk(t):
            if hasattr(n, "ctx"):
                n.ctx = ast.Store()
        return t

    def _has_own(self, stmts, typ):
        """break/continue belonging to the loop whose body `stmts` is (not to nested loops)"""
        for st in stmts:
            if isinstance(st, typ):
                return True
            if isinstance(st, (ast.For, ast.While)):
                if self._has_own(st.orelse, typ):
                    return True
                continue
            for fld in ("body", "orelse", "finalbody"):
                sub = getattr(st, fld, None)
                if sub and isinstance(sub, list) and isinstance(sub[0], ast.stmt) and self._has_own(sub, typ):
                    return True
            for h in getattr(st, "handlers", []) or []:
                if self._has_own(h.body, typ):
                    return True
        return False

    def _chain_to(self, stmts, target, owner=None):
        """[(block list, index, owner statement of that block)] leading to the statement that contains `target` as its expression"""
        for i, st in enumerate(stmts):
            if isinstance(st, ast.Expr) and st.value is target:
                return [(stmts, i, owner)]
            for fld in ("body", "orelse", "finalbody"):
                sub = getattr(st, fld, None)
                if sub and isinstance(sub, list) and isinstance(sub[0], ast.stmt):
                    r = self._chain_to(sub, target, st)
                    if r is not None:
                        return [(stmts, i, owner)] + r
            for h in getattr(st, "handlers", []) or []:
                r = self._chain_to(h.body, target, st)
                if r is not None:
                    return [(stmts, i, owner)] + r
        return None


def inline_modules(p0, modules: dict):
    """rewrite the trees of `modules` (name -> Module of the program being built) in place; returns statistics"""
    from .model import set_parents

    stats = {}
    for name, m in modules.items():
        inl = Inliner(p0, m)
        st = inl.run()
        if st["inlined"] or st["refused"]:
            stats[name] = st
    # private helpers that are referenced nowhere any more (every call site was inlined) are dropped from the inlined view:
    # they are dead code there, and keeping them would make every rule see their statements twice
    refs = {}
    for m in modules.values():
        for n in ast.walk(m.tree):
            if isinstance(n, ast.Name):
                refs[n.id] = refs.get(n.id, 0) + 1
            elif isinstance(n, ast.Attribute):
                refs[n.attr] = refs.get(n.attr, 0) + 1
            elif isinstance(n, ast.alias):
                refs[n.name.split(".")[-1]] = refs.get(n.name.split(".")[-1], 0) + 1
            elif isinstance(n, ast.Constant) and isinstance(n.value, str) and n.value.isidentifier():
                refs[n.value] = refs.get(n.value, 0) + 1  # getattr(obj, "name") style references
    for name, m in modules.items():
        if name not in stats or not stats[name]["inlined"]:
            continue
        dead = []
        for owner in [m.tree] + [n for n in ast.walk(m.tree) if isinstance(n, ast.ClassDef)]:
            for st_ in owner.body:
                if isinstance(st_, ast.FunctionDef) and _is_candidate_name(st_.name) and refs.get(st_.name, 0) == 0 and all((isinstance(d, ast.Name) and d.id in ("staticmethod", "classmethod", "contextmanager")) or ast.unparse(d) == "contextlib.contextmanager" for d in st_.decorator_list):
                    dead.append((st_.lineno, st_.col_offset))
                    st_._dead_helper = True  # type: ignore[attr-defined]
        # closures whose every call was inlined: no reference to the name is left inside the enclosing function
        for fn in [n for n in ast.walk(m.tree) if isinstance(n, ast.FunctionDef)]:
            for st_ in fn.body:
                if isinstance(st_, ast.FunctionDef) and _is_candidate_name(st_.name) and not st_.decorator_list:
                    inner_refs = [n for n in ast.walk(fn) if isinstance(n, ast.Name) and n.id == st_.name and not any(n is y for y in ast.walk(st_))]
                    if not inner_refs:
                        dead.append((st_.lineno, st_.col_offset))
                        st_._dead_helper = True  # type: ignore[attr-defined]
        if dead:
            stats[name]["dead_helpers"] = len(dead)
    for m in modules.values():
        ast.fix_missing_locations(m.tree)
        set_parents(m.tree)
    return stats
