"""XSD content models as regular expressions / NFAs over child tags, attribute tables and simple types;
language inclusion by subset construction (finite enumeration, no solver)."""
from __future__ import annotations

import itertools
import os
import xml.etree.ElementTree as ET
from typing import Dict, List, Optional, Tuple

from .model import AnalysisError

XS = "{http://www.w3.org/2001/XMLSchema}"

# regex AST: ('sym', a) ('seq', [..]) ('alt', [..]) ('star', r) ('opt', r) ('plus', r) ('eps',) ('any',)


def nfa(r):
    cnt = itertools.count()
    T: Dict[int, list] = {}

    def new():
        s = next(cnt)
        T[s] = []
        return s

    def go(r):
        k = r[0]
        if k == "eps":
            s = new()
            return s, s
        if k == "sym":
            s, t = new(), new()
            T[s].append((r[1], t))
            return s, t
        if k == "any":
            s = new()
            T[s].append(("*", s))
            return s, s
        if k == "seq":
            if not r[1]:
                return go(("eps",))
            s, t = go(r[1][0])
            for x in r[1][1:]:
                a, b = go(x)
                T[t].append((None, a))
                t = b
            return s, t
        if k == "alt":
            s, t = new(), new()
            for x in r[1]:
                a, b = go(x)
                T[s].append((None, a))
                T[b].append((None, t))
            return s, t
        if k in ("star", "opt", "plus"):
            a, b = go(r[1])
            s, t = new(), new()
            T[s].append((None, a))
            T[b].append((None, t))
            if k in ("star", "opt"):
                T[s].append((None, t))
            if k in ("star", "plus"):
                T[b].append((None, a))
            return s, t
        raise ValueError(k)

    s, t = go(r)
    return s, t, T


def closure(S, T):
    st = list(S)
    S = set(S)
    while st:
        x = st.pop()
        for sym, y in T[x]:
            if sym is None and y not in S:
                S.add(y)
                st.append(y)
    return frozenset(S)


def included(r1, r2, alphabet) -> Tuple[bool, Optional[List[str]]]:
    """L(r1) subset of L(r2)?  (True, None) or (False, shortest counterexample word)"""
    s1, a1, T1 = nfa(r1)
    s2, a2, T2 = nfa(r2)
    start = (closure({s1}, T1), closure({s2}, T2))
    seen = {start: ()}
    q = [start]
    while q:
        A, B = q.pop(0)
        w = seen[(A, B)]
        if a1 in A and a2 not in B:
            return False, list(w)
        for sym in alphabet:
            A2 = closure({y for x in A for s, y in T1[x] if s == sym or s == "*"}, T1)
            if not A2:
                continue
            B2 = closure({y for x in B for s, y in T2[x] if s == sym or s == "*"}, T2)
            if (A2, B2) not in seen:
                seen[(A2, B2)] = w + (sym,)
                q.append((A2, B2))
    return True, None


def symbols(r):
    if r[0] == "sym":
        yield r[1]
    elif r[0] in ("seq", "alt"):
        for x in r[1]:
            yield from symbols(x)
    elif r[0] in ("star", "opt", "plus"):
        yield from symbols(r[1])


def show_re(r) -> str:
    k = r[0]
    if k == "eps":
        return "ε"
    if k == "sym":
        return r[1]
    if k == "any":
        return "ANY*"
    if k == "seq":
        return "(" + " ".join(show_re(x) for x in r[1]) + ")" if r[1] else "ε"
    if k == "alt":
        return "(" + " | ".join(show_re(x) for x in r[1]) + ")"
    return show_re(r[1]) + {"star": "*", "opt": "?", "plus": "+"}[k]


class CType:
    def __init__(self, name):
        self.name = name
        self.model = ("eps",)
        self.attrs: Dict[str, dict] = {}  # name -> {use, type, fixed}
        self.children: Dict[str, object] = {}  # child tag -> type name | CType (anonymous)
        self.text_type: Optional[str] = None  # simple content base
        self.any = False


class Schema:
    def __init__(self, path):
        if not os.path.exists(path):
            raise AnalysisError(f"schema {path} missing")
        self.path = path
        self.root = ET.parse(path).getroot()
        if self.root.tag != XS + "schema":
            raise AnalysisError(f"{path}: not an XML schema")
        self.ctypes: Dict[str, CType] = {}
        self.stypes: Dict[str, dict] = {}
        self.elements: Dict[str, str] = {}
        self.target_ns = self.root.get("targetNamespace")
        for bad in ("key", "keyref", "unique", "group", "attributeGroup", "redefine", "include"):
            if list(self.root.iter(XS + bad)):
                raise AnalysisError(f"{path}: schema feature xs:{bad} is outside the supported subset")
        for e in self.root.iter(XS + "element"):
            if e.get("substitutionGroup") or e.get("ref"):
                raise AnalysisError(f"{path}: substitution groups / element refs are outside the supported subset")
        for st in self.root.findall(XS + "simpleType"):
            self.stypes[st.get("name")] = self._stype(st)
        for ct in self.root.findall(XS + "complexType"):
            self.ctypes[ct.get("name")] = self._ctype(ct, ct.get("name"))
        for e in self.root.findall(XS + "element"):
            self.elements[e.get("name")] = self._local(e.get("type"))

    @staticmethod
    def _local(q):
        return q.split(":")[-1] if q else q

    def _stype(self, st):
        r = st.find(XS + "restriction")
        if r is None:
            raise AnalysisError(f"{self.path}: simpleType {st.get('name')} without restriction")
        return {
            "base": self._local(r.get("base")),
            "enum": [e.get("value") for e in r.findall(XS + "enumeration")],
            "pattern": [e.get("value") for e in r.findall(XS + "pattern")],
        }

    def _occ(self, e, r):
        mn = int(e.get("minOccurs", "1"))
        mx = e.get("maxOccurs", "1")
        if mx == "unbounded":
            if mn == 0:
                return ("star", r)
            if mn == 1:
                return ("plus", r)
            return ("seq", [r] * mn + [("star", r)])
        mx = int(mx)
        if mn == 0 and mx == 1:
            return ("opt", r)
        if mn == 1 and mx == 1:
            return r
        return ("seq", [r] * mn + [("opt", r)] * (mx - mn))

    def _model(self, node, ct: CType):
        tag = node.tag.replace(XS, "")
        if tag == "element":
            name = node.get("name")
            anon = node.find(XS + "complexType")
            ct.children[name] = self._ctype(anon, f"{ct.name}/{name}") if anon is not None else self._local(node.get("type"))
            return self._occ(node, ("sym", name))
        parts = [self._model(c, ct) for c in node if c.tag.replace(XS, "") in ("element", "sequence", "choice", "any")]
        if tag == "sequence":
            return self._occ(node, ("seq", parts))
        if tag == "choice":
            return self._occ(node, ("alt", parts))
        if tag == "any":
            return ("any",)
        raise AnalysisError(f"{self.path}: unsupported particle {tag}")

    def _ctype(self, ct, name) -> CType:
        c = CType(name)
        for child in ct:
            t = child.tag.replace(XS, "")
            if t in ("sequence", "choice"):
                c.model = self._model(child, c)
            elif t == "attribute":
                c.attrs[child.get("name")] = {"use": child.get("use", "optional"), "type": self._local(child.get("type")), "fixed": child.get("fixed")}
            elif t == "simpleContent":
                ext = child.find(XS + "extension")
                if ext is None:
                    raise AnalysisError(f"{self.path}: simpleContent without extension in {name}")
                c.text_type = self._local(ext.get("base"))
                for a in ext.findall(XS + "attribute"):
                    c.attrs[a.get("name")] = {"use": a.get("use", "optional"), "type": self._local(a.get("type")), "fixed": a.get("fixed")}
            elif t == "complexContent":
                c.any = True
                c.model = ("any",)
            elif t == "annotation":
                continue
            else:
                raise AnalysisError(f"{self.path}: unsupported construct xs:{t} in complexType {name}")
        return c

    def type_of(self, parent: Optional[CType], tag):
        """type (CType | simple type name) of child `tag` under `parent` (None = global element)"""
        if parent is None:
            tn = self.elements.get(tag)
            return self.ctypes.get(tn, tn)
        t = parent.children.get(tag)
        if isinstance(t, CType):
            return t
        return self.ctypes.get(t, t)

    def simple_info(self, tname):
        """{'base','enum','pattern'} for a named simple type, or builtin name"""
        if tname in self.stypes:
            return self.stypes[tname]
        return {"base": tname, "enum": [], "pattern": []}
