#!/venv/bin/python
"""Static checks for the given properties of ascmitc/mhl.

usage: check.py <property id> [--tier quick|thorough] [--explain <violation.json>] [--repo DIR]

Parses the current working tree of /repo (override with MHL_REPO / --repo for the self-test only); nothing from
the repository is imported or executed. exit 0 = all obligations discharged, exit 1 + VIOLATION line =
an obligation failed on a recognised construct, exit 2 + ANALYSIS-ERROR = the checker could not interpret
the code (never a VIOLATION).
"""
import argparse
import importlib
import json
import os
import sys
import traceback

sys.path.insert(0, os.path.dirname(os.path.abspath(__file__)))
sys.dont_write_bytecode = True

from sa.model import AnalysisError, Program  # noqa: E402
from sa.rules import Report  # noqa: E402


def main():
    ap = argparse.ArgumentParser()
    ap.add_argument("prop")
    ap.add_argument("--tier", default=os.environ.get("VERIF_TIER", "quick"), choices=["quick", "thorough"])
    ap.add_argument("--repo", default=os.environ.get("MHL_REPO", "/repo"))
    ap.add_argument("--explain", default=None)
    ap.add_argument("--no-selftest", action="store_true")
    ap.add_argument("--no-evidence", action="store_true")
    a = ap.parse_args()
    prop = a.prop.upper()
    try:
        mod = importlib.import_module("props." + prop.lower())
    except ModuleNotFoundError:
        print(f"ANALYSIS-ERROR property={prop} no check module")
        return 2
    except Exception as e:  # a defect of the checker itself is never reported as a property violation
        print(f"ANALYSIS-ERROR property={prop} the check module could not be loaded: {type(e).__name__}: {e}")
        return 2
    def attempt(program):
        """run the property's rules on one view of the program; returns (exit code, captured output, report)"""
        import contextlib
        import io

        buf = io.StringIO()
        report = Report(prop, a.tier, program)
        report.write_evidence = (os.path.abspath(a.repo) == "/repo") and not a.no_evidence
        report.defer_evidence = True
        rc = 2
        with contextlib.redirect_stdout(buf):
            try:
                try:
                    mod.run(report, program)
                except AnalysisError as e:
                    # a violation established by one rule stands even if a later rule cannot interpret the code: report it
                    # (exit 1) and mention the part that was not analysed; without an established violation this stays an analysis error
                    from sa.rules import load_known

                    open_keys = {k["key"] for k in load_known().get("open", []) if k.get("property") == prop}
                    if not any(f.key not in open_keys for r in report.rules for f in r.findings):
                        raise
                    print(f"ANALYSIS-NOTE property={prop} not everything could be analysed ({e}); the violations found before that point follow")
                    rc = mod.finish(report) or 2
                else:
                    rc = mod.finish(report)
            except AnalysisError as e:
                print(f"ANALYSIS-ERROR property={prop} {e}")
                rc = 2
            except Exception:
                print(traceback.format_exc())
                print(f"ANALYSIS-ERROR property={prop} internal error in the checker (traceback above)")
                rc = 2
        return rc, buf.getvalue(), report

    try:
        program = Program(a.repo)
        bad = program.dynamic_constructs()
        if bad:
            raise AnalysisError("dynamic constructs make the call graph unsound: " + "; ".join(bad[:5]))
        if a.explain:
            report = Report(prop, a.tier, program)
            report.write_evidence = False
            mod.run(report, program)
            want = json.load(open(a.explain))["key"]
            hits = [f for r in report.rules for f in r.findings if f.key == want]
            if hits:
                f = hits[0]
                print(f"STILL PRESENT: {f.key}\n  {f.loc}: {f.message}\n  witness: {f.witness}")
                return 1
            print(f"NOT PRESENT on the current tree: {want}")
            return 0
        if os.environ.get("VERIF_FORCE_INLINED"):  # development aid: judge the helper-inlined view alone
            program = Program(a.repo, inline_from=program)
        rc, out, report = attempt(program)
        if rc != 0 and not os.environ.get("VERIF_FORCE_INLINED"):
            # second, equivalent view of the same program: private same-module helpers inlined into their callers (sa/inline.py).
            # Both views denote the same behaviour, so obligations discharged on either view are discharged; a violation that only the
            # inlined view can name is a violation too. Otherwise the plain view's result is reported.
            try:
                inl = Program(a.repo, inline_from=program)
                rc2, out2, report2 = attempt(inl)
            except Exception as e:  # the normalisation itself must never decide anything
                rc2, out2, report2 = 2, f"(helper-inlined view not available: {e})", None
            first = next((l for l in out.splitlines() if l.startswith(("VIOLATION", "ANALYSIS-ERROR"))), "")
            if rc2 == 0:
                print(f"[{prop}] plain view not conclusive ({first[:160]}); evaluated on the helper-inlined view of the same sources:")
                rc, out, report = rc2, out2, report2
            if rc2 == 0:
                pass
            elif os.environ.get("VERIF_DEBUG_VIEWS"):
                sys.stdout.write("---- helper-inlined view (debug) ----\n" + "\n".join(l for l in out2.splitlines() if not l.startswith(f"[{prop}] R")) + "\n---- plain view ----\n")
                if inl.inline_stats:
                    sys.stdout.write("inline refusals: " + json.dumps({k: v["refused"] for k, v in inl.inline_stats.items() if v.get("refused")}) + "\n")
            elif rc == 2 and rc2 == 1:
                print(f"[{prop}] plain view: {first[:200]}; the helper-inlined view of the same sources reports:")
                rc, out, report = rc2, out2, report2
            elif rc == 1 and rc2 == 2 and report2 is not None and len(report2.rules) > 1:
                # the inlined view gave up in some rule, but the rules it completed before that count: a plain-view finding of a rule that the inlined view
                # evaluated completely and found clean is an artefact of where the code sits (a helper), the obligation is discharged there
                import contextlib
                import io

                from sa.rules import load_known

                open_keys = {k["key"] for k in load_known().get("open", []) if k.get("property") == prop}
                clean2 = {r.id for r in report2.rules[:-1] if not any(f.key not in open_keys for f in r.findings)}
                dropped = 0
                for r in report.rules:
                    bad_ = [f for f in r.findings if f.key not in open_keys]
                    if r.id in clean2 and bad_:
                        dropped += len(bad_)
                        r.findings = [f for f in r.findings if f.key in open_keys]
                        r.discharged += len(bad_)
                if dropped:
                    plain_complete = "ANALYSIS-NOTE" not in out
                    buf_ = io.StringIO()
                    try:
                        with contextlib.redirect_stdout(buf_):
                            rc_new = mod.finish(report)
                    except AnalysisError as e:
                        rc_new = 2
                        buf_.write(f"ANALYSIS-ERROR property={prop} {e}\n")
                    head_ = f"[{prop}] {dropped} plain-view finding(s) belong to rules that the helper-inlined view of the same sources evaluated completely and found clean: discharged there\n"
                    if rc_new == 0 and not plain_complete:
                        note_ = next((l for l in out.splitlines() if l.startswith("ANALYSIS-NOTE")), "")
                        rc, out = 2, head_ + f"ANALYSIS-ERROR property={prop} neither view could be analysed completely ({note_[:300]})\n"
                    else:
                        rc, out = rc_new, head_ + buf_.getvalue()
            elif rc == 1 and rc2 == 1:
                # both views name violations: an obligation that fails on the plain view only because the code sits in a helper is discharged on the
                # inlined view, so the inlined view's list is the one without such artefacts
                print(f"[{prop}] violations on both views; reported from the helper-inlined view of the same sources:")
                rc, out, report = rc2, out2, report2
        # a method of a package base class that a subclass newly overrides (not so in the reference tree): the rules judge the implementation they
        # know; a silent pass would vouch for code they never looked at. (Overrides a rule handles explicitly have produced their verdict above.)
        if rc == 0:
            try:
                from sa.renames import unknown_overrides

                unk = unknown_overrides(program)
            except Exception as e:  # pragma: no cover
                unk = []
            if unk:
                out += f"ANALYSIS-ERROR property={prop} new override(s) of package methods that the rules do not model: {', '.join(unk[:5])}\n"
                rc = 2
        sys.stdout.write(out)
        if report is not None:
            report.flush_evidence()
        if rc == 0 and a.tier == "thorough" and not a.no_selftest and a.repo == "/repo":
            from selftest import run_selftest

            rc2 = run_selftest(prop)
            if rc2 != 0:
                return rc2
        return rc
    except AnalysisError as e:
        print(f"ANALYSIS-ERROR property={prop} {e}")
        return 2
    except Exception:
        traceback.print_exc()
        print(f"ANALYSIS-ERROR property={prop} internal error in the checker (traceback above)")
        return 2


if __name__ == "__main__":
    sys.exit(main())
