#!/venv/bin/python
"""Static checks for the given properties of ascmitc/mhl.

usage: check.py <property id> [--tier quick|thorough] [--explain <violation.json>] [--repo DIR]

Parses the current working tree of /repo (override with MHL_REPO / --repo for the self-test only); nothing from
the repository is imported or executed. exit 0 = all obligations discharged, exit 1 + VIOLATION line =
an obligation failed on a recognised construct, exit 2 + ANALYSIS-ERROR = the checker could not interpret
the code (never a VIOLATION).
"""
import argparse
import importlib
import json
import os
import sys
import traceback

sys.path.insert(0, os.path.dirname(os.path.abspath(__file__)))
sys.dont_write_bytecode = True

from sa.model import AnalysisError, Program  # noqa: E402
from sa.rules import Report  # noqa: E402


def main():
    ap = argparse.ArgumentParser()
    ap.add_argument("prop")
    ap.add_argument("--tier", default=os.environ.get("VERIF_TIER", "quick"), choices=["quick", "thorough"])
    ap.add_argument("--repo", default=os.environ.get("MHL_REPO", "/repo"))
    ap.add_argument("--explain", default=None)
    ap.add_argument("--no-selftest", action="store_true")
    ap.add_argument("--no-evidence", action="store_true")
    a = ap.parse_args()
    prop = a.prop.upper()
    try:
        mod = importlib.import_module("props." + prop.lower())
    except ModuleNotFoundError:
        print(f"ANALYSIS-ERROR property={prop} no check module")
        return 2
    try:
        program = Program(a.repo)
        report = Report(prop, a.tier, program)
        report.write_evidence = (os.path.abspath(a.repo) == "/repo") and not a.no_evidence
        bad = program.dynamic_constructs()
        if bad:
            raise AnalysisError("dynamic constructs make the call graph unsound: " + "; ".join(bad[:5]))
        try:
            mod.run(report, program)
        except AnalysisError as e:
            # a violation established by one rule stands even if a later rule cannot interpret the code: report it (exit 1),
            # and mention the part that was not analysed; without an established violation this stays an analysis error
            from sa.rules import load_known

            open_keys = {k["key"] for k in load_known().get("open", []) if k.get("property") == prop}
            if not any(f.key not in open_keys for r in report.rules for f in r.findings):
                raise
            print(f"ANALYSIS-NOTE property={prop} not everything could be analysed ({e}); the violations found before that point follow")
            return mod.finish(report) or 2
        if a.explain:
            want = json.load(open(a.explain))["key"]
            hits = [f for r in report.rules for f in r.findings if f.key == want]
            if hits:
                f = hits[0]
                print(f"STILL PRESENT: {f.key}\n  {f.loc}: {f.message}\n  witness: {f.witness}")
                return 1
            print(f"NOT PRESENT on the current tree: {want}")
            return 0
        rc = mod.finish(report)
        if rc == 0 and a.tier == "thorough" and not a.no_selftest and a.repo == "/repo":
            from selftest import run_selftest

            rc2 = run_selftest(prop)
            if rc2 != 0:
                return rc2
        return rc
    except AnalysisError as e:
        print(f"ANALYSIS-ERROR property={prop} {e}")
        return 2
    except Exception:
        traceback.print_exc()
        print(f"ANALYSIS-ERROR property={prop} internal error in the checker (traceback above)")
        return 2


if __name__ == "__main__":
    sys.exit(main())
