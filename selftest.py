"""Two-way self-test of the checkers (thorough tier): every 'breaking' variant of /repo's source must be reported by the
named rule, every 'silent' variant (behaviour-preserving rewrite) must pass. Variants are textual edits applied to a
scratch copy of the CURRENT /repo tree outside /repo and /verif; the copy is parsed by the checker, never executed.
A miss is a defect of the checker => exit 2 (ANALYSIS-ERROR), never a VIOLATION."""
from __future__ import annotations

import json
import os
import shutil
import subprocess
import sys
import tempfile
import time
from concurrent.futures import ThreadPoolExecutor

HERE = os.path.dirname(os.path.abspath(__file__))
REPO = os.environ.get("MHL_REPO", "/repo")


def load_variants():
    from selftest_variants import VARIANTS

    return VARIANTS


def run_variant(prop, v, base):
    if "patch" in v:
        return run_patch_variant(prop, v, base)
    rel, old, new = v["file"], v["old"], v["new"]
    src = os.path.join(base, rel)
    try:
        s = open(src, encoding="utf-8").read()
    except OSError:
        return ("skipped", "file missing")
    if s.count(old) != 1:
        return ("skipped", f"anchor text occurs {s.count(old)} times in the current tree")
    tmp = tempfile.mkdtemp(prefix="mhl_selftest_")
    try:
        for d in ("ascmhl", "xsd"):
            shutil.copytree(os.path.join(base, d), os.path.join(tmp, d), ignore=shutil.ignore_patterns("__pycache__"))
        shutil.copy(os.path.join(base, "setup.py"), tmp)
        open(os.path.join(tmp, rel), "w", encoding="utf-8").write(s.replace(old, new))
        r = subprocess.run([sys.executable, os.path.join(HERE, "check.py"), prop, "--repo", tmp, "--no-selftest", "--no-evidence"], capture_output=True, text=True, timeout=300)
        out = r.stdout
        rules = sorted({l.split("[")[1].split("]")[0] for l in out.splitlines() if l.startswith("  ") and "[" in l and "]" in l})
        return (r.returncode, rules, out[-600:])
    finally:
        shutil.rmtree(tmp, ignore_errors=True)


def run_patch_variant(prop, v, base):
    tmp = tempfile.mkdtemp(prefix="mhl_selftest_")
    try:
        for d in ("ascmhl", "xsd"):
            shutil.copytree(os.path.join(base, d), os.path.join(tmp, d), ignore=shutil.ignore_patterns("__pycache__"))
        shutil.copy(os.path.join(base, "setup.py"), tmp)
        r = subprocess.run(["patch", "-p1", "-s", "-f", "-d", tmp, "-i", os.path.join(HERE, v["patch"])], capture_output=True, text=True)
        if r.returncode != 0:
            return ("skipped", "patch does not apply to the current tree")
        r = subprocess.run([sys.executable, os.path.join(HERE, "check.py"), prop, "--repo", tmp, "--no-selftest", "--no-evidence"], capture_output=True, text=True, timeout=300)
        rules = sorted({l.split("[")[1].split("]")[0] for l in r.stdout.splitlines() if l.startswith("  ") and "[" in l and "]" in l})
        return (r.returncode, rules, r.stdout[-600:])
    finally:
        shutil.rmtree(tmp, ignore_errors=True)


def run_selftest(prop) -> int:
    variants = [v for v in load_variants() if prop in v["props"]]
    t0 = time.time()
    # baseline must be clean, otherwise variants cannot be judged
    results = []
    with ThreadPoolExecutor(max_workers=min(16, max(1, len(variants)))) as ex:
        futs = [(v, ex.submit(run_variant, prop, v, REPO)) for v in variants]
        for v, f in futs:
            results.append((v, f.result()))
    bad, ok, skipped = [], 0, 0
    rows = []
    for v, res in results:
        if res[0] == "skipped":
            skipped += 1
            rows.append({"name": v["name"], "expect": v["expect"], "result": "skipped: " + res[1]})
            continue
        rc, rules, tail = res
        if v["expect"] == "silent":
            good = rc == 0
        elif v["expect"] == "no-alarm":
            good = rc in (0, 2)  # a behaviour-preserving rewrite that uses constructs outside the model: `cannot analyse` is acceptable, an alarm is not
        else:
            good = rc == 1 and (v["expect"] == "any" or any(r == v["expect"] or r.startswith(v["expect"]) for r in rules))
        rows.append({"name": v["name"], "expect": v["expect"], "exit": rc, "rules": rules, "ok": good})
        if good:
            ok += 1
        else:
            bad.append((v, rc, rules, tail))
    # append to evidence
    evp = os.path.join(HERE, "evidence", f"{prop}.json")
    try:
        ev = json.load(open(evp))
        ev["coverage"]["selftest"] = {"variants": len(variants), "as_expected": ok, "skipped": skipped, "wall_s": round(time.time() - t0, 2), "rows": rows}
        ev["wall_s"] = round(ev.get("wall_s", 0) + time.time() - t0, 3)
        json.dump(ev, open(evp, "w"), indent=1, default=str)
    except Exception:
        pass
    print(f"[{prop}] self-test: {ok}/{len(variants) - skipped} variants as expected ({skipped} skipped: anchor text not in the current tree) in {time.time() - t0:.1f}s")
    if bad:
        for v, rc, rules, tail in bad:
            print(f"ANALYSIS-ERROR property={prop} self-test variant '{v['name']}' expected {v['expect']} but got exit {rc} rules {rules}")
        return 2
    return 0


if __name__ == "__main__":
    sys.exit(run_selftest(sys.argv[1].upper()))
