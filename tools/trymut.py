#!/venv/bin/python
"""dev helper: apply a textual edit to a scratch copy of /repo and run one or more checks on it.
usage: trymut.py <props comma separated> <relative file> <old> <new>   (old must occur exactly once unless --all)
       trymut.py <props> --patch <file.diff>"""
import os, shutil, subprocess, sys, tempfile
props = sys.argv[1].split(",")
tmp = tempfile.mkdtemp(prefix="mhlmut_")
try:
    for d in ("ascmhl", "xsd"):
        shutil.copytree(os.path.join("/repo", d), os.path.join(tmp, d), ignore=shutil.ignore_patterns("__pycache__"))
    shutil.copy("/repo/setup.py", tmp)
    if sys.argv[2] == "--patch":
        r = subprocess.run(["patch", "-p1", "-s", "-d", tmp, "-i", os.path.abspath(sys.argv[3])])
        if r.returncode: sys.exit("patch failed")
    else:
        rel, old, new = sys.argv[2:5]
        p = os.path.join(tmp, rel); s = open(p).read()
        if s.count(old) != 1 and "--all" not in sys.argv: sys.exit(f"old occurs {s.count(old)} times")
        open(p, "w").write(s.replace(old, new))
    import ast
    for dp, dn, fn in os.walk(tmp):
        for f in fn:
            if f.endswith(".py"): ast.parse(open(os.path.join(dp, f)).read())
    for pr in props:
        r = subprocess.run(["/venv/bin/python", "/verif/check.py", pr, "--repo", tmp], capture_output=True, text=True)
        lines = [l for l in r.stdout.splitlines() if l.startswith(("VIOLATION", "ANALYSIS", "  ", "KNOWN"))]
        print(f"== {pr} rc={r.returncode}"); print("\n".join(lines[:12]).replace(tmp, "<tmp>")); 
        if r.stderr.strip(): print(r.stderr[-1500:])
finally:
    shutil.rmtree(tmp)
