#!/venv/bin/python
"""writes /verif/MANIFEST.json from the table below (claimed checks = those with a props/cNN.py module)."""
import json
import os

V = os.path.dirname(os.path.dirname(os.path.abspath(__file__)))

META = {
    "C01": ("other", "CFG path rule on both read loops (every chunk reaches every hasher until EOF, binary mode), format->algorithm table, hex/c4 codec constants and encoder/decoder agreement, single implementation routing, no memoisation on the digest path, the hasher that is fed is created in the call (never the receiver / a parameter)", "hashlib/xxhash compute the standard algorithms; base-58 arithmetic for all 512-bit values is not decided", "CFG path rule + table agreement + who-may-call", "4 C01"),
    "C02": ("other", "loop coverage of the traversal and of its consumers (nothing but ignored names is dropped, every yielded file sealed, every folder recorded), record-key provenance, -sf scope, is_directory only ever a constant, no symlink-resolved path reaches a record key / history lookup / traversal root, -sf completeness (every named file reaches the seal call on every path of its iteration, generators included), the traversal never modifies the pathspec it was given", "records vs. concrete trees are not executed; digests per C01/C04", "loop coverage + provenance", "4 C02"),
    "C03": ("other", "error-signal discipline, exit-code table, exit precedence truth table, sibling agreement of the expected-set pipeline in create/verify/diff, timestamps inert, no truth test on a model object that defines __len__/__bool__, folders never counted as new files against a set that is not ancestor-closed, the logger never interprets an already formatted message as a printf format, verify and diff count every file without an original entry as new, the missing-file report is reached on every exit after the traversal, no single-use iterator consumed inside a loop, no fallback to records above the routed history (2 known findings), a file handle that reaches the chunk loop twice is rewound in between, no un-keyed sort over tuples holding model objects, one spelling of a path at every ignore match", "verdicts for concrete trees are not executed; hash collision resistance trusted", "decision table + sibling diff + taint", "4 C03"),
    "C04": ("other", "action decision table, first-generation-wins lookup shape, generations kept ascending, gating of new formats, promotion-or-abort before write, one selector for the reference format, tables keyed by hash format cover every supported format, inner entry loops exhaustive, only the constructor / session / validator / reader assign an entry's action", "generation sequences are not executed", "decision table + CFG dominance + cross-site agreement", "4 C04"),
    "C05": ("other", "verification loop shape and raise classes on all paths of the loader, verify-before-trust dominance, who-may-call the XML parsers, load-before-write in every command, no enclosing try", "collision resistance of c4; chain files produced by the tool", "CFG path conditions + typestate + who-may-call", "4 C05"),
    "C06": ("other", "who-may-write, fresh name = latest+1, name format accepted by the loader (regex structure parsed, sample names with hostile folder names, the skip filter evaluated on generated names), the folder name goes into the manifest name character by character unchanged, chain rewrite = all old entries in order + one new, hashed after closed", "byte stability at run time not executed", "who-may-call + provenance + regex inclusion + typestate", "4 C06"),
    "C07": ("other", "argument wiring of the directory-hash context (content vs structure, name binding), sort-then-decode-then-hash, per-format key consistency, children before parents, sibling wiring in create / verify -dh, overrides of hash_of_hash_list hand the list itself (at most re-ordered) to the base implementation", "numeric equality with an independent evaluation is not decided", "provenance (argument wiring) + CFG order + sibling diff", "4 C07"),
    "C08": ("other", "component-wise exact-key routing, lookups of recorded entries on the routed history with the routed path, every referenced child generation written into the parent manifest, bottom-up commit, reference hashed after the child file is closed, write condition, child root hash copied up in all formats, one <hashlistreference> per referenced hash list on every path, the readers consume the whole document", "exactly-one-history per file on concrete layouts is not executed", "CFG order + typestate + provenance", "4 C08"),
    "C09": ("other", "result-use consistency and the 4-row decision table of the comparison helper against what each caller books as failure, writer-optional fields guarded before dereference, key-domain agreement of per-format lookups, failure bookkeeping reaches the exit decision, the list of formats that all have to fail for exit 12 holds recorded formats only, comparison / collection loops exhaustive, directory entries collected from the history itself only, __slots__ lists every attribute the package stores", "that a changed tree yields different directory hashes (C07 + collision resistance)", "result-use consistency + three-valued decision-table evaluation + nullability + key-domain", "4 C09"),
    "C10": ("other", "writer field table equals reader field table, all variable text goes through the escaping builder, path conversion paired both ways, the reader attaches every container it parsed to the hash list under parser-state tests only (attach table, push/pop pairing), hash dates keep their offset, reader conversions are followed through helpers (a fixed strptime layout is lossy), nothing edits the serialised XML line by line on its way to the file, the readers' event loops are never left early and iterate the parser's event stream itself", "lxml escaping/iterparse trusted; values not executed", "emission grammar vs reader decision table + taint", "4 C10"),
    "C11": ("other", "language of element sequences the writers can emit is included in the XSD content models (every helper that writes to the document is modelled or the check fails closed; a truth test on a lazy iterator is not a non-emptiness guard); attribute sets; enumerations; multiplicity; literals the writer itself supplies checked against XSD patterns", "libxml2 is the reference validator; e-mail pattern and lexical dates for all clock values not decided", "emission grammar included in XSD automata", "4 C11"),
    "C12": ("other", "every traversal and missing-file filter gets the spec built from (latest generation, -i, -ii); no ignore option is dropped; accumulation order/de-duplication; propagation at commit; the ignore filter is applied after the rename rewrite on the way to the missing-files report; patterns are matched relative to the sealed root, the -i option is declared multiple, the <ignore> element is emitted on every path of the manifest writer, the pathspec is read-only inside the traversal, every ignore match is handed the undecorated relative path", "pathspec gitwildmatch semantics trusted", "provenance + dead-option + CFG order", "4 C12"),
    "C13": ("other", "sortedness dataflow on every enumeration site, provenance/taint of every ignore-match argument and record key, no string decomposition of absolute paths in decisions, scan of set iterations, no import-time defaults, folder name in manifest file names from the normalised root, no temporary outside the destination's directory", "byte identity at run time not executed", "sortedness dataflow + taint", "4 C13"),
    "C14": ("proof", "absence of reachable file-system-mutating call sites per read-only command and path provenance of every mutating site of create/flatten: a sound over-approximation given the trusted base, every directory made by create is followed by the publication of a file, no makedirs in flatten's reach", "effects table of external callables; ast call resolution with CHA and unknown-receiver over-approximation; CPython import semantics", "call-graph reachability over an effects table + path provenance", "4 C14"),
    "C15": ("other", "no durable history file is opened truncating under its final name (write temp, close, atomic replace outside any cleanup block, temp name ignored by the loader and re-creatable); validation before first write; manifest before chain; the loader parses only *.mhl entries and never raises on a stray / not-yet-chained manifest; no raise in the loader is conditioned on the existence of a file the commit creates only transiently (lock, temporary) or on `folder made by the commit exists, file published into it later is missing` (1 known finding: first create of a history); a durable file is never moved away or removed; no publish step in close / __del__ / unguarded __exit__ (run by the finaliser after a failed write); temporaries live next to their destination; no roll-back that removes a published manifest / chain", "the full crash-point quantifier (OS write reordering, fsync, directory durability) is not decided", "typestate + provenance", "4 C15"),
    "C16": ("other", "UTC offset is derived from the date it is attached to; no tzinfo is dropped or swapped without conversion; date formatters are not memoised; numeric attributes guarded by `is not None`; size/mtime from the hashed path; UTC file name; the reader's size conversion evaluated for \"0\" and \"7\"; the time stamp in the manifest file name traced to its strftime; zone parameters of the ISO formatter stay at their default at every call feeding a manifest; size and modification date pass through the session unchanged", "tz database rules; sizes changing during hashing", "provenance/dependency + emission-guard typing", "4 C16"),
    "C17": ("other", "previous path persisted/parsed/indexed under both names; one rename rewrite in three commands; verify follows the previous path; previous_path only under digest equality and -dr, and always recorded when the match takes the old path out of the missing set; the rename map is composed across generations (chains A->B->C); the matching loop is not left on a mismatch; every pair of the matching loop reaches a digest comparison unless sizes differ or a directory would have to be read as a file (path enumeration, helpers analysed through their returning paths); hash_file never reached for a directory; the previous-path search runs over the generations of the routed history; first-hit lookups by name must notice that a name changed hands (2 known findings)", "pairing for concrete sets of simultaneous renames not executed", "sibling diff + guard extraction", "4 C17"),
    "C18": ("other", "flatten visits every generation in order, the collection history carries no generations of earlier packing lists; the carry-over decision table (directory / failed / path known / format known) evaluated three-valued over the loop body equals the specification; argument wiring incl. action; commits only into the destination; verify -pl dispatch and option wiring to the packing-list loader; verify never counts a traversed folder as a new file against a set that is not ancestor-closed (a packing list has no directory records); nothing reachable mutates the source history; between load and commit flatten asks the file system nothing about recorded paths", "equality with an independently computed summary not executed", "loop coverage + guard extraction + provenance", "4 C18"),
    "C19": ("other", "listing loops exhaustive and unsliced and not fed from a single-use iterator bound outside the loop, exactly one digest line per entry with verbose off (every other output and the recursion into the previous name only under verbose), each printed field from the matching attribute of the matching loop variable, recursion over all children, no history => exit 30", "exact output text not decided", "loop coverage + f-string wiring", "4 C19"),
    "C20": ("other", "daemon before start on every path, constant bound on every join, network only inside run(), the checker thread writes nothing to stdout/stderr, checker state read only in result callbacks after the join, callback cannot raise/exit, no __exit__ / try-except around command invocation can swallow the command's exit, the main-thread side of the checker takes no lock the thread holds across a network call and waits on nothing unbounded, no executor / further thread / process / exit hook anywhere in the package, no catastrophic-backtracking pattern on the checker thread, thread-filled fields that start as None are used on the main side only under a test of that field, both CLI groups agree", "interleavings are not explored; daemon-thread shutdown semantics of CPython trusted", "typestate + who-may-call + constant bound + sibling diff", "4 C20"),
}


def main():
    props = [json.loads(l) for l in open(os.path.join(V, "properties.jsonl"))]
    checks, na = [], []
    for pr in props:
        pid = pr["id"]
        if os.path.exists(os.path.join(V, "props", pid.lower() + ".py")):
            cat, text, note, tech, ref = META[pid]
            checks.append(
                {
                    "property_id": pid,
                    "quick_cmd": f"/venv/bin/python /verif/check.py {pid} --tier quick",
                    "thorough_cmd": f"/venv/bin/python /verif/check.py {pid} --tier thorough",
                    "evidence_file": f"/verif/evidence/{pid}.json",
                    "replay_cmd_template": f"/venv/bin/python /verif/check.py {pid} --explain {{path}}",
                    "engine": "sa",
                    "level_claimed": {
                        "category": cat,
                        "text": "static analysis of /repo's current source (nothing executed): decides these structural clauses, each a necessary condition of the property - " + text + ". The behavioural whole of the property (its quantifier over inputs/histories/schedules) is NOT decided.",
                        "design_ref": "DESIGN.md section " + ref,
                    },
                    "level_note": note,
                    "technique": "static analysis (stdlib ast): " + tech,
                }
            )
        else:
            na.append({"property_id": pid, "reason": "check under construction (see DESIGN.md section 4); not yet claimed"})
    m = {
        "version": 1,
        "setup_cmd": "/venv/bin/python -c \"import ast,sys; [ast.parse(open(f).read()) for f in __import__('glob').glob('/verif/**/*.py', recursive=True)]\"",
        "hooks": {
            "guard": "ASCMITC_MHL_VERIF",
            "enable": "no hooks: the checks parse /repo's sources and run nothing from it",
            "baseline_off_cmd": "cd /repo && /venv/bin/python -m pytest -q -p no:cacheprovider --timeout=900",
            "source_commits": [],
            "add_only": True,
        },
        "engines": [
            {"name": "sa", "path": "/verif/sa", "serves_properties": [c["property_id"] for c in checks], "kind_free_text": "stdlib-ast static analysis: program model + call graph, per-function CFG with dominators, reaching definitions/provenance terms, effects table, XML emission grammar vs XSD automata"}
        ],
        "checks": checks,
        "not_applicable": na,
        "notes": "exit 0 = obligations discharged (KNOWN-FINDING lines allowed); exit 1 + VIOLATION = an obligation failed on a recognised construct; exit 2 + ANALYSIS-ERROR = the checker cannot interpret the code (never a VIOLATION). Findings are keyed by rule + function + normalised construct (known_findings.json).",
    }
    if not na:
        m.pop("not_applicable")
        m["not_applicable"] = []
    json.dump(m, open(os.path.join(V, "MANIFEST.json"), "w"), indent=1)
    print(f"{len(checks)} checks, {len(na)} not yet claimed")


if __name__ == "__main__":
    main()
