#!/bin/bash
# usage: try_refactor.sh <tree dir>  -- runs every check (in parallel) on a (supposedly behaviour-preserving) variant tree
wt=$1
run1() { p=$1; wt=$2; out=$(/venv/bin/python /verif/check.py $p --repo $wt --no-evidence --no-selftest 2>&1); rc=$?
  if [ $rc -ne 0 ]; then echo "== $p rc=$rc"; echo "$out" | grep -E "^ANALYSIS|^  /|^  ascmhl|^  \?" | head -6 | cut -c1-330; fi; }
export -f run1
printf "%s\n" C01 C02 C03 C04 C05 C06 C07 C08 C09 C10 C11 C12 C13 C14 C15 C16 C17 C18 C19 C20 | xargs -P 16 -I{} bash -c "run1 {} $wt"
