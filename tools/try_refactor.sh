#!/bin/bash
# usage: try_refactor.sh <worktree dir>  -- runs every check on a (supposedly behaviour-preserving) variant tree
wt=$1
for p in C01 C02 C03 C04 C05 C06 C07 C08 C09 C10 C11 C12 C13 C14 C15 C16 C17 C18 C19 C20; do
  out=$(/venv/bin/python /verif/check.py $p --repo $wt --no-evidence 2>&1); rc=$?
  if [ $rc -ne 0 ]; then echo "== $p rc=$rc"; echo "$out" | grep -E "^VIOLATION|^ANALYSIS|^  /|^  ascmhl|^  \?" | grep -v "^VIOLATION" | head -6 | cut -c1-330; fi
done
