#!/venv/bin/python
"""dev aid: materialise mutant <id> of the last mutscan report under /tmp/sc/m<id> (source only)"""
import json, os, shutil, subprocess, sys
sys.path.insert(0, os.path.dirname(os.path.abspath(__file__)))
import mutscan
mid = int(sys.argv[1])
ops = int(sys.argv[2]) if len(sys.argv) > 2 else 1
ms = []
for f in mutscan.FILES:
    ms += (mutscan.mutants_of2 if ops == 2 else mutscan.mutants_of)(f, open(os.path.join("/repo", f), encoding="utf-8").read())
m = ms[mid]
d = f"/tmp/sc/m{ops}_{mid}" if ops != 1 else f"/tmp/sc/m{mid}"
shutil.rmtree(d, ignore_errors=True)
os.makedirs(d)
for x in ("ascmhl", "xsd"):
    shutil.copytree(os.path.join("/repo", x), os.path.join(d, x), ignore=shutil.ignore_patterns("__pycache__"))
shutil.copy("/repo/setup.py", d)
open(os.path.join(d, m["file"]), "w").write(m["src"])
print(d, m["file"], m["line"], m["kind"], m["fragment"])
