#!/bin/bash
# usage: vet_round.sh <round letter> [ids...]  -- vets every delivered seed of the round (tools/vet_seed.py), materialises /tmp/sc/<ID><round>, prints a summary
rd=$1; shift
ids=${@:-01 02 03 04 05 06 07 08 09 10 11 12 13 14 15 16 17 18 19 20}
todo=""
for i in $ids; do
  if [ -f /tmp/seed_C${i}${rd}/patch.diff ] && [ -f /tmp/seed_C${i}${rd}/demo.py ]; then todo="$todo $i"; fi
done
echo $todo | tr ' ' '\n' | grep . | xargs -P 8 -I{} sh -c "/venv/bin/python /verif/tools/vet_seed.py C{} /tmp/seed_C{}${rd} C{}_${rd} > /tmp/vet_C{}${rd}.log 2>&1"
for i in $todo; do
  d=/tmp/sc/C${i}${rd}; rm -rf $d; mkdir -p $d; git -C /repo archive HEAD ascmhl xsd setup.py | tar -x -C $d; (cd $d && patch -p1 -s < /verif/seeded/C${i}_${rd}/patch.diff) || echo "patch failed $i"
  /venv/bin/python -c "
import json; d=json.load(open('/verif/seeded/C${i}_${rd}/meta.json')); print('C$i', 'confirmed' if d.get('confirmed') else 'NOT-CONFIRMED', 'own' if 'C$i' in d.get('caught_by') else 'MISS', d.get('caught_by'), 'err', d.get('analysis_error_in'))"
done
