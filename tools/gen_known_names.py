#!/venv/bin/python
"""regenerates sa/known_names.json (module-level and class-level names of the reference tree): see sa/normalise.py"""
import json, os, sys
V = os.path.dirname(os.path.dirname(os.path.abspath(__file__)))
sys.path.insert(0, V)
from sa import normalise
os.path.exists(normalise.NAMES) and os.remove(normalise.NAMES)
from sa.model import Program
p = Program(sys.argv[1] if len(sys.argv) > 1 else "/repo")
t = normalise.names_table(p.modules)
json.dump(dict(sorted(t.items())), open(normalise.NAMES, "w"), indent=1)
print(len(t), "scopes")
