#!/venv/bin/python
"""vet a seeded change produced by an independent sub-agent and store it under /verif/seeded/<name>/.
usage: vet_seed.py <property id> <seed dir with patch.diff + demo.py [+notes.md]> <name> [--keep-anyway]
Steps (all in a scratch worktree outside /repo and /verif, removed afterwards):
  demo on the unmodified code must exit 0; patch must apply; the unedited suite must pass; demo must exit non-zero;
  then every registered check is run on the patched tree (source only, via --repo) and the result recorded."""
import glob, json, os, shutil, subprocess, sys, time
prop, sdir, name = sys.argv[1], sys.argv[2], sys.argv[3]
wt = f"/tmp/vet_{name}"
def sh(cmd, cwd=None, timeout=900):
    r = subprocess.run(cmd, shell=True, cwd=cwd, capture_output=True, text=True, timeout=timeout)
    return r.returncode, (r.stdout + r.stderr)
subprocess.run(f"git -C /repo worktree remove --force {wt} 2>/dev/null; rm -rf {wt}", shell=True)
rc, out = sh(f"git -C /repo worktree add -q --detach {wt} HEAD")
assert rc == 0, out
meta = {"property": prop, "name": name, "base_commit": sh("git -C /repo rev-parse --short HEAD")[1].strip()}
try:
    rc0, o0 = sh(f"/venv/bin/python {sdir}/demo.py", cwd=wt)
    meta["demo_exit_unmodified"] = rc0
    rc, out = sh(f"git apply {sdir}/patch.diff", cwd=wt)
    if rc != 0:
        rc, out = sh(f"patch -p1 -i {sdir}/patch.diff", cwd=wt)
    meta["patch_applies"] = rc == 0
    assert rc == 0, "patch does not apply: " + out
    rc, out = sh("/venv/bin/python -m pytest -q -p no:cacheprovider -x", cwd=wt)
    meta["suite"] = out.strip().splitlines()[-1] if out.strip() else ""
    meta["suite_passes"] = rc == 0 and "79 passed" in out
    rc1, o1 = sh(f"/venv/bin/python {sdir}/demo.py", cwd=wt)
    meta["demo_exit_with_change"] = rc1
    meta["demo_tail_with_change"] = o1.strip().splitlines()[-3:]
    ok = rc0 == 0 and rc1 != 0 and meta["suite_passes"]
    meta["confirmed"] = ok
    checks = sorted(os.path.basename(f)[:-3].upper() for f in glob.glob("/verif/props/c[0-9][0-9].py"))
    res = {}
    for c in checks:
        rc, out = sh(f"/venv/bin/python /verif/check.py {c} --repo {wt}")
        v = [l for l in out.splitlines() if l.startswith("  ") and "[" in l and "]" in l][:3]
        res[c] = {"exit": rc, "findings": [l.strip().replace(wt + "/", "")[:260] for l in v]}
    meta["checks_on_patched_tree"] = {c: r for c, r in res.items() if r["exit"] != 0}
    meta["caught_by"] = [c for c, r in res.items() if r["exit"] == 1]
    meta["analysis_error_in"] = [c for c, r in res.items() if r["exit"] == 2]
    meta["vetted_at"] = time.strftime("%Y-%m-%dT%H:%M:%SZ", time.gmtime())
    print(json.dumps({k: meta[k] for k in ("confirmed", "suite", "demo_exit_unmodified", "demo_exit_with_change", "caught_by", "analysis_error_in")}, indent=1))
    for c in meta["caught_by"] + meta["analysis_error_in"]:
        for l in res[c]["findings"][:2]:
            print("   ", c, l[:230])
    if ok or "--keep-anyway" in sys.argv:
        d = f"/verif/seeded/{name}"
        os.makedirs(d, exist_ok=True)
        shutil.copy(f"{sdir}/patch.diff", d)
        shutil.copy(f"{sdir}/demo.py", d)
        if os.path.exists(f"{sdir}/notes.md"):
            shutil.copy(f"{sdir}/notes.md", d)
        meta["what_i_ran"] = ["git worktree add (scratch)", "demo.py on unmodified code", "git apply patch.diff", "pytest -q (79 tests)", "demo.py with the change", "every /verif check with --repo <scratch>"]
        json.dump(meta, open(f"{d}/meta.json", "w"), indent=1)
finally:
    subprocess.run(f"git -C /repo worktree remove --force {wt}; rm -rf {wt}", shell=True)
