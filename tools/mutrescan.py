#!/venv/bin/python
"""dev aid: re-run all checks on the mutants that survived the suite in the last mutscan report (no test suite run)"""
import json, os, shutil, subprocess, sys, tempfile
from concurrent.futures import ThreadPoolExecutor
sys.path.insert(0, os.path.dirname(os.path.abspath(__file__)))
import mutscan
OPS = int(os.environ.get("MUT_OPS", "1"))
DIR = "/tmp/mutscan2" if OPS == 2 else "/tmp/mutscan"
rep = json.load(open(DIR + "/report.json"))
ms = []
for f in mutscan.FILES:
    ms += (mutscan.mutants_of2 if OPS == 2 else mutscan.mutants_of)(f, open(os.path.join("/repo", f), encoding="utf-8").read())
surv = [r for r in rep if r.get("survived_suite") and (not os.environ.get("MUT_ONLY_SILENT") or not r.get("caught_by"))]
checks = ["C%02d" % i for i in range(1, 21)]
def one(r):
    m = ms[r["id"]]
    assert (m["file"], m["line"], m["kind"]) == (r["file"], r["line"], r["kind"])
    tmp = tempfile.mkdtemp(prefix="mutre_")
    try:
        for d in ("ascmhl", "xsd"):
            shutil.copytree(os.path.join("/repo", d), os.path.join(tmp, d), ignore=shutil.ignore_patterns("__pycache__"))
        shutil.copy("/repo/setup.py", tmp)
        open(os.path.join(tmp, m["file"]), "w").write(m["src"])
        caught, err = {}, []
        for c in checks:
            x = subprocess.run(["/venv/bin/python", "/verif/check.py", c, "--repo", tmp, "--no-evidence", "--no-selftest"], capture_output=True, text=True, timeout=900)
            if x.returncode == 1:
                caught[c] = sorted({l.split("[")[1].split("]")[0] for l in x.stdout.splitlines() if l.startswith("  ") and "[" in l and "]" in l})
            elif x.returncode == 2:
                err.append(c)
        r2 = dict(r); r2["caught_by"] = caught; r2["analysis_error_in"] = err
        return r2
    finally:
        shutil.rmtree(tmp, ignore_errors=True)
with ThreadPoolExecutor(max_workers=int(sys.argv[1]) if len(sys.argv) > 1 else 14) as ex:
    out = list(ex.map(one, surv))
json.dump(out, open(DIR + "/rescan.json", "w"), indent=1)
print(f"survivors {len(out)}; reported {len([r for r in out if r['caught_by']])}; silent {len([r for r in out if not r['caught_by'] and not r['analysis_error_in']])}; only exit 2: {len([r for r in out if not r['caught_by'] and r['analysis_error_in']])}")
