#!/venv/bin/python
"""Development aid (NOT part of any check): mechanical mutants of /repo's shipped sources, filtered to those that the
repository's own 79 tests do not notice, then every /verif check is run on the mutated SOURCE (nothing of /verif
executes the mutant). Output: /tmp/mutscan/report.json with, per surviving mutant, which checks reported it (exit 1),
which could not analyse it (exit 2) and which stayed silent - the silent survivors are triaged by hand (equivalent
mutant / property really broken => strengthen a rule).

usage: mutscan.py [--files a.py,b.py] [--max N] [--jobs 16] [--out DIR]
"""
from __future__ import annotations

import argparse
import ast
import hashlib
import json
import os
import shutil
import subprocess
import sys
import tempfile
from concurrent.futures import ThreadPoolExecutor

REPO = "/repo"
FILES = [
    "ascmhl/commands.py", "ascmhl/history.py", "ascmhl/generator.py", "ascmhl/hasher.py", "ascmhl/hashlist.py", "ascmhl/hashlist_xml_parser.py",
    "ascmhl/chain_xml_parser.py", "ascmhl/chain.py", "ascmhl/traverse.py", "ascmhl/ignore.py", "ascmhl/utils.py", "ascmhl/cli/update.py", "ascmhl/errors.py",
]


def seg(src_lines, node):
    """(start offset, end offset) of node in the joined source"""
    starts = [0]
    for l in src_lines:
        starts.append(starts[-1] + len(l))
    return starts[node.lineno - 1] + node.col_offset, starts[node.end_lineno - 1] + node.end_col_offset


def mutants_of2(path, src):
    """second operator set: Python-semantics slips (None vs truthiness, slices, first/last, string methods, path functions, dropped keyword
    arguments, dropped raise, emptied if-bodies, reversed / truncated loops, tuple order, dict access)"""
    tree = ast.parse(src)
    lines = src.splitlines(keepends=True)

    def off(lineno, col):
        pre = "".join(lines[: lineno - 1])
        return len(pre) + len(lines[lineno - 1].encode("utf-8")[:col].decode("utf-8"))

    out = []

    def rep(node, new_text, kind):
        a, b = off(node.lineno, node.col_offset), off(node.end_lineno, node.end_col_offset)
        out.append((kind, node.lineno, src[a:b][:60].replace("\n", " "), src[:a] + new_text + src[b:]))

    parents = {}
    for n in ast.walk(tree):
        for c in ast.iter_child_nodes(n):
            parents[c] = n
    U = ast.unparse
    SWAP_METH = {"startswith": "endswith", "endswith": "startswith", "rsplit": "split", "split": "rsplit", "lstrip": "strip", "rstrip": "strip", "strip": "rstrip", "append": "insert0", "add": None, "update": None,
                 "rfind": "find", "find": "rfind", "lower": "DROP", "upper": "DROP", "ljust": "rjust", "rjust": "ljust", "discard": None, "extend": "append", "pop": None, "items": None, "keys": None}
    SWAP_FUNC = {"os.path.dirname": "os.path.basename", "os.path.basename": "os.path.dirname", "os.path.abspath": "DROP", "os.path.normpath": "DROP", "os.path.isfile": "os.path.exists", "os.path.isdir": "os.path.exists",
                 "os.path.exists": "os.path.isfile", "min": "max", "max": "min", "any": "all", "all": "any", "len": None, "reversed": "DROP", "list": None, "set": "list", "str": None, "int": None}
    for n in ast.walk(tree):
        if isinstance(n, ast.Compare) and len(n.ops) == 1 and isinstance(n.ops[0], (ast.Is, ast.IsNot)) and isinstance(n.comparators[0], ast.Constant) and n.comparators[0].value is None:
            rep(n, f"({'not ' if isinstance(n.ops[0], ast.Is) else ''}{U(n.left)})", "none->truth")
        elif isinstance(n, (ast.If, ast.While, ast.IfExp)) and isinstance(n.test, (ast.Name, ast.Attribute)):
            rep(n.test, f"({U(n.test)} is not None)", "truth->none")
        if isinstance(n, ast.UnaryOp) and isinstance(n.op, ast.Not) and isinstance(n.operand, (ast.Name, ast.Attribute)) and isinstance(parents.get(n), (ast.If, ast.While, ast.IfExp)):
            rep(n, f"({U(n.operand)} is None)", "nottruth->none")
        if isinstance(n, ast.Subscript):
            sl = n.slice
            if isinstance(sl, ast.Slice):
                if sl.lower is not None and sl.upper is None:
                    rep(n, f"{U(n.value)}[:]", "slice-lower-drop")
                    if isinstance(sl.lower, ast.Constant) and isinstance(sl.lower.value, int):
                        rep(n, f"{U(n.value)}[{sl.lower.value + 1}:]", "slice-lower+1")
                if sl.upper is not None and sl.lower is None:
                    rep(n, f"{U(n.value)}[:]", "slice-upper-drop")
                    if isinstance(sl.upper, ast.Constant) and isinstance(sl.upper.value, int):
                        rep(n, f"{U(n.value)}[:{sl.upper.value + 1}]", "slice-upper+1")
            elif isinstance(sl, ast.Constant) and sl.value == 0 and isinstance(n.ctx, ast.Load):
                rep(n, f"{U(n.value)}[-1]", "first->last")
            elif isinstance(sl, ast.Constant) and isinstance(sl.value, str) and isinstance(n.ctx, ast.Load):
                rep(n, f"{U(n.value)}.get({sl.value!r})", "subscript->get")
        if isinstance(n, ast.BinOp) and isinstance(n.op, (ast.Add, ast.Sub)) and isinstance(n.right, ast.Constant) and isinstance(n.right.value, int) and not isinstance(n.right.value, bool):
            rep(n, f"({U(n.left)})", "plusminus-const-drop")
            rep(n, f"({U(n.left)} {'-' if isinstance(n.op, ast.Add) else '+'} {n.right.value})", "plusminus-swap")
        if isinstance(n, ast.Call):
            fn = U(n.func)
            if isinstance(n.func, ast.Attribute) and n.func.attr in SWAP_METH and SWAP_METH[n.func.attr]:
                tgt = SWAP_METH[n.func.attr]
                args = ", ".join([U(a) for a in n.args] + [f"{k.arg}={U(k.value)}" for k in n.keywords if k.arg])
                if tgt == "DROP" and not n.args:
                    rep(n, f"{U(n.func.value)}", "method-drop")
                elif tgt == "insert0" and len(n.args) == 1 and isinstance(parents.get(n), ast.Expr):
                    rep(n, f"{U(n.func.value)}.insert(0, {U(n.args[0])})", "append->insert0")
                elif tgt not in ("DROP", "insert0"):
                    rep(n, f"{U(n.func.value)}.{tgt}({args})", "method-swap")
            if isinstance(n.func, ast.Attribute) and n.func.attr == "get" and len(n.args) == 2:
                rep(n, f"{U(n.func.value)}.get({U(n.args[0])})", "get-default-drop")
            if fn in SWAP_FUNC and SWAP_FUNC[fn]:
                tgt = SWAP_FUNC[fn]
                if tgt == "DROP" and len(n.args) == 1 and not n.keywords:
                    rep(n, f"({U(n.args[0])})", "func-drop")
                elif tgt != "DROP":
                    args = ", ".join([U(a) for a in n.args] + [f"{k.arg}={U(k.value)}" for k in n.keywords if k.arg])
                    rep(n, f"{tgt}({args})", "func-swap")
            if n.keywords and not fn.startswith(("logger.", "click.")) and not any(k.arg is None for k in n.keywords):
                for i, k in enumerate(n.keywords):
                    rest = [U(a) for a in n.args] + [f"{k2.arg}={U(k2.value)}" for j, k2 in enumerate(n.keywords) if j != i]
                    rep(n, f"{fn}({', '.join(rest)})", "kwarg-drop")
            if fn == "os.path.join" and len(n.args) == 2:
                rep(n, f"({U(n.args[1])})", "join-drop-first")
            if fn == "os.path.relpath" and len(n.args) == 2:
                rep(n, f"({U(n.args[0])})", "relpath-drop")
        if isinstance(n, ast.Raise) and n.exc is not None:
            rep(n, "pass", "raise-drop")
        if isinstance(n, ast.If) and not n.orelse and len(n.body) >= 1 and not all(isinstance(b, (ast.Raise, ast.Continue, ast.Break, ast.Return, ast.Pass)) or (isinstance(b, ast.Expr) and isinstance(b.value, ast.Call) and U(b.value.func).startswith("logger.")) for b in n.body):
            first, last = n.body[0], n.body[-1]
            a, b = off(first.lineno, first.col_offset), off(last.end_lineno, last.end_col_offset)
            out.append(("if-body-drop", n.lineno, src[a:b][:60].replace("\n", " "), src[:a] + "pass" + src[b:]))
        if isinstance(n, ast.If) and n.orelse and not (len(n.orelse) == 1 and isinstance(n.orelse[0], ast.If)):
            first, last = n.orelse[0], n.orelse[-1]
            a, b = off(first.lineno, first.col_offset), off(last.end_lineno, last.end_col_offset)
            out.append(("else-body-drop", n.lineno, src[a:b][:60].replace("\n", " "), src[:a] + "pass" + src[b:]))
        if isinstance(n, ast.For) and not isinstance(n.iter, ast.Call):
            rep(n.iter, f"list({U(n.iter)})[:1]", "loop-first-only")
            rep(n.iter, f"list({U(n.iter)})[::-1]", "loop-reversed")
        if isinstance(n, ast.Return) and isinstance(n.value, ast.Tuple) and len(n.value.elts) == 2:
            rep(n.value, f"{U(n.value.elts[1])}, {U(n.value.elts[0])}", "return-tuple-swap")
        if isinstance(n, ast.Assign) and len(n.targets) == 1 and isinstance(n.targets[0], ast.Tuple) and isinstance(n.value, ast.Tuple) and len(n.value.elts) == 2:
            rep(n.value, f"{U(n.value.elts[1])}, {U(n.value.elts[0])}", "assign-tuple-swap")
        if isinstance(n, ast.Constant) and isinstance(n.value, str) and n.value in ("c4", "md5", "sha1", "xxh64", "xxh3", "xxh128") and not isinstance(parents.get(n), (ast.Expr, ast.JoinedStr)):
            rep(n, repr({"c4": "md5", "md5": "sha1", "sha1": "md5", "xxh64": "xxh3", "xxh3": "xxh64", "xxh128": "xxh64"}[n.value]), "const-format")
        if isinstance(n, ast.Constant) and isinstance(n.value, str) and n.value in (".", "..", "/", "", "._", ".mhl", "wb", "rb", "r", "w") and not isinstance(parents.get(n), (ast.Expr, ast.JoinedStr)):
            rep(n, repr({".": "", "..": ".", "/": "", "": ".", "._": ".", ".mhl": "mhl", "wb": "ab", "rb": "r", "r": "rb", "w": "a"}[n.value]), "const-str")
    good, seen = [], set()
    for kind, line, frag, new_src in out:
        if new_src == src:
            continue
        h = hashlib.sha1(new_src.encode()).hexdigest()
        if h in seen:
            continue
        seen.add(h)
        try:
            ast.parse(new_src)
        except SyntaxError:
            continue
        good.append({"file": path, "kind": kind, "line": line, "fragment": frag, "src": new_src})
    return good


def mutants_of(path, src):
    tree = ast.parse(src)
    # byte offsets vs str offsets: sources are ASCII except a few comments; use utf-8 aware conversion per line
    lines = src.splitlines(keepends=True)

    def off(lineno, col):
        # col is a utf-8 byte offset
        pre = "".join(lines[: lineno - 1])
        return len(pre) + len(lines[lineno - 1].encode("utf-8")[:col].decode("utf-8"))

    out = []

    def rep(node, new_text, kind):
        a, b = off(node.lineno, node.col_offset), off(node.end_lineno, node.end_col_offset)
        out.append((kind, node.lineno, src[a:b][:60].replace("\n", " "), src[:a] + new_text + src[b:]))

    parents = {}
    for n in ast.walk(tree):
        for c in ast.iter_child_nodes(n):
            parents[c] = n
    for n in ast.walk(tree):
        # skip docstrings / logging text
        if isinstance(n, ast.Compare) and len(n.ops) == 1:
            op = n.ops[0]
            swaps = {ast.Eq: "!=", ast.NotEq: "==", ast.Lt: "<=", ast.LtE: "<", ast.Gt: ">=", ast.GtE: ">", ast.Is: "is not", ast.IsNot: "is", ast.In: "not in", ast.NotIn: "in"}
            if type(op) in swaps:
                l, r = ast.unparse(n.left), ast.unparse(n.comparators[0])
                rep(n, f"({l} {swaps[type(op)]} {r})", "cmp-swap")
        elif isinstance(n, ast.BoolOp) and len(n.values) == 2:
            o = "or" if isinstance(n.op, ast.And) else "and"
            rep(n, f"(({ast.unparse(n.values[0])}) {o} ({ast.unparse(n.values[1])}))", "boolop-swap")
            rep(n, f"({ast.unparse(n.values[0])})", "boolop-drop-right")
            rep(n, f"({ast.unparse(n.values[1])})", "boolop-drop-left")
        elif isinstance(n, ast.UnaryOp) and isinstance(n.op, ast.Not):
            rep(n, f"({ast.unparse(n.operand)})", "not-drop")
        elif isinstance(n, (ast.If, ast.While)) and not isinstance(n.test, (ast.UnaryOp, ast.BoolOp, ast.Compare)):
            rep(n.test, f"(not ({ast.unparse(n.test)}))", "test-negate")
        elif isinstance(n, ast.Constant) and not isinstance(parents.get(n), (ast.Expr, ast.JoinedStr, ast.FormattedValue)):
            if isinstance(n.value, bool):
                rep(n, str(not n.value), "const-bool")
            elif isinstance(n.value, int) and not isinstance(n.value, bool) and n.value in (0, 1, 2, -1):
                rep(n, str({0: 1, 1: 0, 2: 1, -1: 0}[n.value]), "const-int")
            elif isinstance(n.value, str) and n.value in ("failed", "verified", "original", "new"):
                rep(n, repr({"failed": "verified", "verified": "failed", "original": "verified", "new": "original"}[n.value]), "const-action")
        elif isinstance(n, ast.Continue):
            rep(n, "pass", "continue->pass")
        elif isinstance(n, ast.Break):
            rep(n, "pass", "break->pass")
            rep(n, "continue", "break->continue")
        elif isinstance(n, ast.Expr) and isinstance(n.value, ast.Call):
            nm = ast.unparse(n.value.func)
            if not nm.startswith(("logger.", "click.echo", "print")):
                rep(n, "pass", "call-drop")
        elif isinstance(n, ast.AugAssign):
            rep(n, "pass", "augassign-drop")
        elif isinstance(n, ast.Assign) and len(n.targets) == 1 and isinstance(n.targets[0], ast.Attribute):
            rep(n, "pass", "attr-store-drop")
        elif isinstance(n, ast.Return) and n.value is not None and not (isinstance(n.value, ast.Constant) and n.value.value is None):
            if isinstance(n.value, ast.Constant) and isinstance(n.value.value, bool):
                continue  # covered by const-bool
            rep(n, "return None", "return-none")
        elif isinstance(n, ast.Subscript) and isinstance(n.slice, ast.UnaryOp) and isinstance(n.slice.op, ast.USub) and isinstance(n.slice.operand, ast.Constant) and n.slice.operand.value == 1:
            rep(n, f"{ast.unparse(n.value)}[0]", "last->first")
        elif isinstance(n, ast.Call) and isinstance(n.func, ast.Name) and n.func.id == "sorted" and len(n.args) == 1 and not n.keywords:
            rep(n, f"list({ast.unparse(n.args[0])})", "sorted-drop")
        elif isinstance(n, ast.Call) and isinstance(n.func, ast.Attribute) and n.func.attr in ("sort",) and isinstance(parents.get(n), ast.Expr):
            pass  # covered by call-drop
        elif isinstance(n, ast.Call) and len(n.args) >= 2 and isinstance(n.func, (ast.Name, ast.Attribute)) and all(isinstance(a, ast.Name) for a in n.args[:2]) and not ast.unparse(n.func).startswith(("logger.", "os.path.join", "isinstance", "hasattr", "getattr")):
            a = [ast.unparse(x) for x in n.args]
            a[0], a[1] = a[1], a[0]
            kws = [f"{k.arg}={ast.unparse(k.value)}" if k.arg else f"**{ast.unparse(k.value)}" for k in n.keywords]
            rep(n, f"{ast.unparse(n.func)}({', '.join(a + kws)})", "arg-swap")
    # drop mutants that do not parse or that are textually identical
    good = []
    seen = set()
    for kind, line, frag, new_src in out:
        if new_src == src:
            continue
        h = hashlib.sha1(new_src.encode()).hexdigest()
        if h in seen:
            continue
        seen.add(h)
        try:
            ast.parse(new_src)
        except SyntaxError:
            continue
        good.append({"file": path, "kind": kind, "line": line, "fragment": frag, "src": new_src})
    return good


def run_one(m, idx, outdir, checks):
    tmp = tempfile.mkdtemp(prefix="mutscan_")
    try:
        for d in ("ascmhl", "xsd", "tests", "examples"):
            if os.path.exists(os.path.join(REPO, d)):
                shutil.copytree(os.path.join(REPO, d), os.path.join(tmp, d), ignore=shutil.ignore_patterns("__pycache__"))
        for f in ("setup.py", "README.md", "conftest.py", "pytest.ini", "setup.cfg", "pyproject.toml", "requirements.txt"):
            if os.path.exists(os.path.join(REPO, f)):
                shutil.copy(os.path.join(REPO, f), tmp)
        open(os.path.join(tmp, m["file"]), "w", encoding="utf-8").write(m["src"])
        try:
            r = subprocess.run(["/venv/bin/python", "-m", "pytest", "-q", "-x", "-p", "no:cacheprovider", "--timeout=120"], cwd=tmp, capture_output=True, text=True, timeout=400)
            survived = r.returncode == 0 and "79 passed" in r.stdout
        except subprocess.TimeoutExpired:
            survived = False
        res = {k: m[k] for k in ("file", "kind", "line", "fragment")}
        res["id"] = idx
        res["survived_suite"] = survived
        if not survived:
            return res
        caught, err = {}, []
        for c in checks:
            r = subprocess.run(["/venv/bin/python", "/verif/check.py", c, "--repo", tmp, "--no-evidence", "--no-selftest"], capture_output=True, text=True, timeout=600)
            if r.returncode == 1:
                rules = sorted({l.split("[")[1].split("]")[0] for l in r.stdout.splitlines() if l.startswith("  ") and "[" in l and "]" in l})
                caught[c] = rules
            elif r.returncode == 2:
                err.append(c)
        res["caught_by"] = caught
        res["analysis_error_in"] = err
        # keep a diff for triage
        d = subprocess.run(["diff", "-u", os.path.join(REPO, m["file"]), os.path.join(tmp, m["file"])], capture_output=True, text=True).stdout
        res["diff"] = "\n".join(d.splitlines()[2:40])
        return res
    finally:
        shutil.rmtree(tmp, ignore_errors=True)


def main():
    ap = argparse.ArgumentParser()
    ap.add_argument("--files", default=",".join(FILES))
    ap.add_argument("--max", type=int, default=0)
    ap.add_argument("--jobs", type=int, default=16)
    ap.add_argument("--out", default="/tmp/mutscan")
    ap.add_argument("--stride", type=int, default=1, help="take every n-th mutant")
    ap.add_argument("--offset", type=int, default=0)
    ap.add_argument("--ops", type=int, default=1, help="operator set: 1 (logic / constants / dropped statements) or 2 (Python-semantics slips)")
    a = ap.parse_args()
    os.makedirs(a.out, exist_ok=True)
    checks = ["C%02d" % i for i in range(1, 21)]
    ms = []
    for f in a.files.split(","):
        src = open(os.path.join(REPO, f), encoding="utf-8").read()
        ms += (mutants_of2 if a.ops == 2 else mutants_of)(f, src)
    ms = ms[a.offset :: a.stride]
    if a.max:
        ms = ms[: a.max]
    print(f"{len(ms)} mutants", flush=True)
    results = []
    with ThreadPoolExecutor(max_workers=a.jobs) as ex:
        futs = [ex.submit(run_one, m, i, a.out, checks) for i, m in enumerate(ms)]
        for i, f in enumerate(futs):
            try:
                results.append(f.result())
            except Exception as e:  # noqa
                results.append({"id": i, "error": str(e)})
            if i % 50 == 49:
                sv = [r for r in results if r.get("survived_suite")]
                print(f"{i + 1}/{len(ms)} done, {len(sv)} survived the suite, {len([r for r in sv if not r['caught_by']])} of them silent in every check", flush=True)
                json.dump(results, open(os.path.join(a.out, "report.json"), "w"), indent=1)
    json.dump(results, open(os.path.join(a.out, "report.json"), "w"), indent=1)
    sv = [r for r in results if r.get("survived_suite")]
    print(f"total {len(results)}; survived suite {len(sv)}; reported by >=1 check {len([r for r in sv if r['caught_by']])}; silent {len([r for r in sv if not r['caught_by'] and not r['analysis_error_in']])}; only analysis-error {len([r for r in sv if not r['caught_by'] and r['analysis_error_in']])}")


if __name__ == "__main__":
    main()
