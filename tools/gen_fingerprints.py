#!/venv/bin/python
"""regenerates sa/known_fingerprints.json from the reference tree (/repo by default): see sa/renames.py"""
import json, os, sys
V = os.path.dirname(os.path.dirname(os.path.abspath(__file__)))
sys.path.insert(0, V)
from sa import renames
from sa.model import Program

os.path.exists(renames.TABLE) and os.remove(renames.TABLE)
# recover() compares on the trees as parsed (it runs before the normalisations): the table is taken from the same state
os.environ["VERIF_NO_NORMALISE"] = "1"
p = Program(sys.argv[1] if len(sys.argv) > 1 else "/repo")
t = renames.table_of(p.modules)
json.dump(dict(sorted(t.items())), open(renames.TABLE, "w"), indent=1)
print(len(t), "functions")
